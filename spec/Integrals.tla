----------------------------- MODULE Integrals -----------------------------
(* C13: circulation and flux integrals (Stokes, Green, Gauss).              *)
(*                                                                          *)
(* Exact integrals of polynomial fields (Poly / FieldOps) over              *)
(*   ell  : the ellipse with centre (c1, c2) in the plane z = c3 and        *)
(*          semi-axes s1, s2 (a circle when s1 = s2); its boundary is run   *)
(*          through as (c1 + s1 cos t, c2 + s2 sin t), so it is positively  *)
(*          oriented iff s1 * s2 > 0                                        *)
(*   rect : [c1, s1] x [c2, s2] in the plane z = c3, boundary run through   *)
(*          (c1,c2) -> (s1,c2) -> (s1,s2) -> (c1,s2)                        *)
(*   box  : [c1, s1] x [c2, s2] x [c3, s3]                                  *)
(*   tri  : the triangle (c1,c2), (c1+s1,c2), (c1,c2+s2) in the plane z = c3,*)
(*          run through in this order when s3 = 1, in the opposite one when  *)
(*          s3 = -1 (a parameter domain whose limits depend on each other)   *)
(*   tet  : the tetrahedron with corner c and edges s1, s2, s3 along x, y, z *)
(*   shell: the cylindrical shell c1 <= r <= s1, c2 <= z <= s2 about the z   *)
(*          axis;   ball : the ball of radius s1 about the origin;           *)
(*          hball: its half y >= 0 (azimuth from 0 to pi)                    *)
(* A value is q + p * pi with q, p rational: [q |-> Rat, p |-> Rat].        *)
(*                                                                          *)
(* What the statement of C13 requires of the library's functions is         *)
(*   circulation (along the curve, or from the curl over a surface spanned  *)
(*     by it)            = CircByStokes  = integral of (curl F)_z           *)
(*   outward flux across the closed planar curve                            *)
(*                       = FluxByGreen   = integral of dF1/dx + dF2/dy      *)
(*   flux out of the box = FluxByGauss   = integral of div F                *)
(* independent of the speed of the parametrisation, negated when the        *)
(* orientation is reversed.  The area integrals use the moment table of the *)
(* ellipse; the model ALSO computes the line / face integrals directly      *)
(* (Wallis' table for the ellipse, one-dimensional integrals for edges and  *)
(* faces) and TLC checks that both sides of each theorem agree, that        *)
(* reversal negates and that the speed cancels, on every state.             *)
EXTENDS FieldOps

CONSTANT Regions     \* the regions of this configuration (a subset of AllRegions)

VARIABLE reg
ivars == <<kind, fld, terms, reg>>

-----------------------------------------------------------------------------
(* values q + p*pi *)
Val(q, p)    == [q |-> q, p |-> p]
VRat(q)      == Val(q, RZero)
VPi(p)       == Val(RZero, p)
ValAdd(a, b) == Val(RAdd(a.q, b.q), RAdd(a.p, b.p))
ValNeg(a)    == Val(RNeg(a.q), RNeg(a.p))

Region(k, c, s) == [k |-> k, c |-> c, s |-> s]
T3(a, b, c) == <<R(a), R(b), R(c)>>

AllRegions == [
  circle1  |-> Region("ell", T3(0, 0, 0), T3(1, 1, 0)),
  circle2  |-> Region("ell", T3(0, 0, 0), T3(2, 2, 0)),
  circle3  |-> Region("ell", T3(0, 0, 0), T3(3, 3, 0)),
  ellipse  |-> Region("ell", T3(0, 0, 0), T3(2, 3, 0)),
  ellipseC |-> Region("ell", T3(1, -1, 0), T3(2, 3, 0)),      \* off-centre: odd moments do not vanish
  circleH  |-> Region("ell", T3(1, 0, 1), T3(2, 2, 0)),       \* in the plane z = 1
  rect     |-> Region("rect", T3(0, 0, 0), T3(2, 3, 0)),
  rectH    |-> Region("rect", T3(-1, 1, 2), T3(2, 3, 0)),     \* in the plane z = 2
  box      |-> Region("box", T3(0, 0, 0), T3(1, 2, 3)),
  boxC     |-> Region("box", T3(-1, 1, -2), T3(2, 3, -1)),
  tri      |-> Region("tri", T3(0, 0, 0), T3(1, 1, 1)),
  triC     |-> Region("tri", T3(1, -1, 0), T3(2, 3, 1)),
  triH     |-> Region("tri", T3(-1, 0, 1), T3(2, 1, 1)),       \* in the plane z = 1
  tet      |-> Region("tet", T3(0, 0, 0), T3(1, 2, 3)),
  tetC     |-> Region("tet", T3(1, -1, 1), T3(2, 1, 2)),
  shell    |-> Region("shell", T3(1, 0, 0), T3(2, 5, 0)),
  shellC   |-> Region("shell", T3(1, -1, 0), T3(3, 1, 0)),
  ball1    |-> Region("ball", T3(0, 0, 0), T3(1, 0, 0)),
  ball2    |-> Region("ball", T3(0, 0, 0), T3(2, 0, 0)),
  hball1   |-> Region("hball", T3(0, 0, 0), T3(1, 0, 0)),      \* the half y >= 0 of the ball (azimuth 0..pi)
  hball2   |-> Region("hball", T3(0, 0, 0), T3(2, 0, 0))
]
RegionsAll   == {AllRegions[n] : n \in DOMAIN AllRegions}
RegionsQuick == {AllRegions[n] : n \in {"circle2", "ellipseC", "circleH", "rect", "rectH", "boxC",
                                        "triC", "triH", "tetC", "shell", "ball2", "hball1"}}

RegionsCurved == {AllRegions[n] : n \in {"ellipseC", "circleH", "rectH", "triC", "triH"}}
RegionsHB == {AllRegions["hball1"], AllRegions["hball2"]}
RegionsPairs == {AllRegions[n] : n \in {"ellipseC", "rectH", "boxC", "triC", "tetC", "shell"}}

\* the same point set with the opposite orientation
Rev(r) == CASE r.k = "ell" -> [r EXCEPT !.s = <<r.s[1], RNeg(r.s[2]), r.s[3]>>]
            [] r.k = "tri" -> [r EXCEPT !.s = <<r.s[1], r.s[2], RNeg(r.s[3])>>]
            [] r.k \in {"rect", "box"} -> [r EXCEPT !.c = <<r.s[1], r.c[2], r.c[3]>>, !.s = <<r.c[1], r.s[2], r.s[3]>>]
            [] OTHER -> r                      \* tet, shell, ball: outward normals only
Reversible(r) == r.k \in {"ell", "tri", "rect", "box"}

-----------------------------------------------------------------------------
(* area and volume integrals *)
RECURSIVE DF(_)
DF(n) == IF n <= 0 THEN 1 ELSE n * DF(n - 2)                 \* double factorial, (-1)!! = 0!! = 1

\* moment table of the unit disc:  int x^i y^j dA = EllMoment(i, j) * pi
EllMoment(i, j) == IF i % 2 = 1 \/ j % 2 = 1 THEN RZero
                   ELSE Norm(DF(i - 1) * DF(j - 1), IPow(2, (i + j) \div 2) * Fact((i + j) \div 2 + 1))

\* coefficient of pi of the integral of p over the ellipse (signed with the orientation)
IntEllipse(p, r) ==
  LET q == PForce(PShift(p, r.c)) IN
  RSum(LAMBDA e : RMul(q[e], RMul(RMul(RPow(r.s[1], e[1] + 1), RPow(r.s[2], e[2] + 1)), EllMoment(e[1], e[2]))),
       {e \in Supp(q) : e[3] = 0})

IntRect(p, r) ==
  RSum(LAMBDA e : RMul(p[e], RMul(RMul(Int1(e[1], r.c[1], r.s[1]), Int1(e[2], r.c[2], r.s[2])), RPow(r.c[3], e[3]))),
       Supp(p))

\* Dirichlet's integrals over the standard simplex:
\*   int_{u,v>=0, u+v<=1} u^i v^j = i! j! / (i+j+2)!      int_{u,v,w>=0, u+v+w<=1} u^i v^j w^k = i! j! k! / (i+j+k+3)!
Dir2(i, j)    == Norm(Fact(i) * Fact(j), Fact(i + j + 2))
Dir3(i, j, k) == Norm(Fact(i) * Fact(j) * Fact(k), Fact(i + j + k + 3))

\* triangle (x, y) = (c1 + s1 u, c2 + s2 v): dA = s1 s2 du dv, signed with the orientation s3
IntTri(p, r) ==
  LET q == PForce(PShift(p, r.c)) IN
  RMul(r.s[3], RSum(LAMBDA e : RMul(q[e], RMul(RMul(RPow(r.s[1], e[1] + 1), RPow(r.s[2], e[2] + 1)), Dir2(e[1], e[2]))),
                    {e \in Supp(q) : e[3] = 0}))
IntTet(p, r) ==
  LET q == PForce(PShift(p, r.c)) IN
  RSum(LAMBDA e : RMul(q[e], RMul(RMul(RMul(RPow(r.s[1], e[1] + 1), RPow(r.s[2], e[2] + 1)), RPow(r.s[3], e[3] + 1)),
                                   Dir3(e[1], e[2], e[3]))), Supp(q))

\* cylindrical shell: annulus moments (difference of two discs) times the integral along z; coefficient of pi
IntShell(p, r) ==
  RSum(LAMBDA e : RMul(p[e], RMul(RMul(EllMoment(e[1], e[2]),
                                       RSub(RPow(r.s[1], e[1] + e[2] + 2), RPow(r.c[1], e[1] + e[2] + 2))),
                                  Int1(e[3], r.c[2], r.s[2]))), Supp(p))

\* ball of radius R: int x^i y^j z^k dV = R^(i+j+k+3) * BallMoment(i, j, k) * pi
AllEven(i, j, k) == i % 2 = 0 /\ j % 2 = 0 /\ k % 2 = 0
BallMoment(i, j, k) == IF ~AllEven(i, j, k) THEN RZero
                       ELSE Norm(4 * DF(i - 1) * DF(j - 1) * DF(k - 1), DF(i + j + k + 3))
IntBall(p, r) == RSum(LAMBDA e : RMul(p[e], RMul(RPow(r.s[1], TotDeg(e) + 3), BallMoment(e[1], e[2], e[3]))), Supp(p))

\* half ball y >= 0: in spherical coordinates (polar angle phi, azimuth theta in [0, pi])
\*   int over the half sphere of w^e dOmega = int_0^pi sin^(i+j+1)(phi) cos^k(phi) dphi * int_0^pi cos^i(theta) sin^j(theta) dtheta
\* for even j this is half of the whole sphere; for odd j (and even i, k) the first factor is
\*   pi * (i+j)!! (k-1)!! / (i+j+k+1)!!  (Wallis, even powers)  and the second  2 * (i-1)!! (j-1)!! / (i+j)!!  (rational)
HalfSphereMoment(i, j, k) ==
  IF j % 2 = 0 THEN RDiv(IF AllEven(i, j, k) THEN Norm(4 * DF(i - 1) * DF(j - 1) * DF(k - 1), DF(i + j + k + 1)) ELSE RZero, R(2))
  ELSE IF i % 2 = 1 \/ k % 2 = 1 THEN RZero
  ELSE RMul(Norm(DF(i + j) * DF(k - 1), DF(i + j + k + 1)), Norm(2 * DF(i - 1) * DF(j - 1), DF(i + j)))
IntHBall(p, r) == RSum(LAMBDA e : RMul(p[e], RDiv(RMul(RPow(r.s[1], TotDeg(e) + 3), HalfSphereMoment(e[1], e[2], e[3])),
                                                  R(TotDeg(e) + 3))), Supp(p))

IntRegion(p, r) == CASE r.k = "ell"   -> VPi(IntEllipse(p, r))
                     [] r.k = "rect"  -> VRat(IntRect(p, r))
                     [] r.k = "box"   -> VRat(PIntBox(p, r.c, r.s))
                     [] r.k = "tri"   -> VRat(IntTri(p, r))
                     [] r.k = "tet"   -> VRat(IntTet(p, r))
                     [] r.k = "shell" -> VPi(IntShell(p, r))
                     [] r.k = "ball"  -> VPi(IntBall(p, r))
                     [] r.k = "hball" -> VPi(IntHBall(p, r))

Div2(F) == PAdd(PDiff(F[1], 1), PDiff(F[2], 2))

CircByStokes(F, r) == IntRegion(PForce(Curl(F)[3]), r)        \* r planar
FluxByGreen(F, r)  == IntRegion(PForce(Div2(F)), r)           \* r planar
FluxByGauss(F, r)  == IntRegion(PForce(Div(F)), r)            \* r a solid

PlanarKinds == {"ell", "rect", "tri"}
\* a planar problem: a region in the plane z = 0 and a field without z component (its two components may
\* depend on z: in the plane they are taken at z = 0, which is what the integrals above do)
Planar(F, r) == r.k \in PlanarKinds /\ r.c[3] = RZero /\ F[3] = PZero

Expected(fn, F, r) == CASE fn = "circ"  -> CircByStokes(F, r)
                        [] fn = "flux2" -> FluxByGreen(F, r)
                        [] fn = "flux3" -> FluxByGauss(F, r)

-----------------------------------------------------------------------------
(* the other side of each theorem, computed directly *)

\* Wallis: int_0^2pi cos^m t sin^n t dt = Wallis(m, n) * pi
Wallis(m, n) == IF m % 2 = 1 \/ n % 2 = 1 THEN RZero ELSE Norm(2 * DF(m - 1) * DF(n - 1), DF(m + n))

\* sum over the terms of q of  q[e] * a^e1 * b^e2 * fac * Wallis(e1 + dm, e2 + dn)   (plane w = 0)
EllLine(q, r, fac, dm, dn) ==
  RSum(LAMBDA e : RMul(RMul(q[e], fac), RMul(RMul(RPow(r.s[1], e[1]), RPow(r.s[2], e[2])), Wallis(e[1] + dm, e[2] + dn))),
       {e \in Supp(q) : e[3] = 0})

\* the curve (c1 + a cos kt, c2 + b sin kt), 0 <= t <= 2 pi / k:  dl = (-a k sin kt, b k cos kt) dt and
\* int_0^(2pi/k) cos^m(kt) sin^n(kt) dt = Wallis(m, n) pi / k
EllCirc(F, r, k) ==
  LET G1 == PForce(PShift(F[1], r.c))  G2 == PForce(PShift(F[2], r.c)) IN
  VPi(RAdd(RDiv(EllLine(G1, r, RMul(RNeg(r.s[1]), k), 0, 1), k), RDiv(EllLine(G2, r, RMul(r.s[2], k), 1, 0), k)))
\* outward normal times ds = (y', -x') dt = (b k cos kt, a k sin kt) dt
EllFlux(F, r, k) ==
  LET G1 == PForce(PShift(F[1], r.c))  G2 == PForce(PShift(F[2], r.c)) IN
  VPi(RAdd(RDiv(EllLine(G1, r, RMul(r.s[2], k), 1, 0), k), RDiv(EllLine(G2, r, RMul(r.s[1], k), 0, 1), k)))

\* edges of a rectangle in the plane z = h: integral of p(x, y0, h) dx from xa to xb, of p(x0, y, h) dy from ya to yb
EdgeX(p, y0, h, xa, xb) == RSum(LAMBDA e : RMul(RMul(p[e], RMul(RPow(y0, e[2]), RPow(h, e[3]))), Int1(e[1], xa, xb)), Supp(p))
EdgeY(p, x0, h, ya, yb) == RSum(LAMBDA e : RMul(RMul(p[e], RMul(RPow(x0, e[1]), RPow(h, e[3]))), Int1(e[2], ya, yb)), Supp(p))

RectCirc(F, r) ==
  LET x0 == r.c[1]  y0 == r.c[2]  x1 == r.s[1]  y1 == r.s[2]  h == r.c[3] IN
  VRat(RAdd(RAdd(EdgeX(F[1], y0, h, x0, x1), EdgeY(F[2], x1, h, y0, y1)),
            RAdd(EdgeX(F[1], y1, h, x1, x0), EdgeY(F[2], x0, h, y1, y0))))
\* outward normals of a counter-clockwise rectangle: -y (bottom), +x (right), +y (top), -x (left)
RectFlux(F, r) ==
  LET x0 == r.c[1]  y0 == r.c[2]  x1 == r.s[1]  y1 == r.s[2]  h == r.c[3] IN
  VRat(RAdd(RAdd(RNeg(EdgeX(F[2], y0, h, x0, x1)), EdgeY(F[1], x1, h, y0, y1)),
            RAdd(EdgeX(F[2], y1, h, x0, x1), RNeg(EdgeY(F[1], x0, h, y0, y1)))))

\* flux of F through the face x_v = val of the box (normal +e_v)
Face(F, r, v, val) ==
  LET lo == [w \in 1..3 |-> IF w = v THEN RZero ELSE r.c[w]]
      hi == [w \in 1..3 |-> IF w = v THEN ROne ELSE r.s[w]]
  IN  PIntBox(PForce(PRestrict(F[v], v, val)), lo, hi)
BoxFaces(F, r) ==
  VRat(RAdd(RAdd(RSub(Face(F, r, 1, r.s[1]), Face(F, r, 1, r.c[1])), RSub(Face(F, r, 2, r.s[2]), Face(F, r, 2, r.c[2]))),
            RSub(Face(F, r, 3, r.s[3]), Face(F, r, 3, r.c[3]))))

\* triangle: legs by one-dimensional integrals, hypotenuse (a(1-t), b t) by Euler's Beta integral
\*   int_0^1 (1-t)^i t^j dt = i! j! / (i+j+1)!
Beta(i, j) == Norm(Fact(i) * Fact(j), Fact(i + j + 1))
Hyp(q, r) == RSum(LAMBDA e : RMul(q[e], RMul(RMul(RPow(r.s[1], e[1]), RPow(r.s[2], e[2])), Beta(e[1], e[2]))),
                  {e \in Supp(q) : e[3] = 0})
TriCirc(F, r) ==
  LET G1 == PForce(PShift(F[1], r.c))  G2 == PForce(PShift(F[2], r.c))  a == r.s[1]  b == r.s[2] IN
  VRat(RMul(r.s[3], RAdd(RAdd(EdgeX(G1, RZero, RZero, RZero, a), EdgeY(G2, RZero, RZero, b, RZero)),
                         RAdd(RMul(RNeg(a), Hyp(G1, r)), RMul(b, Hyp(G2, r))))))
TriFlux(F, r) ==
  LET G1 == PForce(PShift(F[1], r.c))  G2 == PForce(PShift(F[2], r.c))  a == r.s[1]  b == r.s[2] IN
  VRat(RMul(r.s[3], RAdd(RAdd(RNeg(EdgeX(G2, RZero, RZero, RZero, a)), EdgeY(G1, RZero, RZero, b, RZero)),
                         RAdd(RMul(b, Hyp(G1, r)), RMul(a, Hyp(G2, r))))))

\* tetrahedron: the slanted face (a u, b v, c (1-u-v)) has dS = (bc, ac, ab) du dv and
\*   int_{u+v<=1} u^i v^j (1-u-v)^k du dv = i! j! k! / (i+j+k+2)!;   the three faces in the coordinate planes
\*   through the corner have normals -e_x, -e_y, -e_z
Dir2x(i, j, k) == Norm(Fact(i) * Fact(j) * Fact(k), Fact(i + j + k + 2))
TetFaces(F, r) ==
  LET G == [v \in 1..3 |-> PForce(PShift(F[v], r.c))]
      a == r.s[1]  b == r.s[2]  c == r.s[3]
      sc(e) == RMul(RMul(RPow(a, e[1]), RPow(b, e[2])), RPow(c, e[3]))
      slant(v, w) == RMul(w, RSum(LAMBDA e : RMul(G[v][e], RMul(sc(e), Dir2x(e[1], e[2], e[3]))), Supp(G[v])))
      fx == RSum(LAMBDA e : RMul(G[1][e], RMul(RMul(RPow(b, e[2] + 1), RPow(c, e[3] + 1)), Dir2(e[2], e[3]))),
                 {e \in Supp(G[1]) : e[1] = 0})
      fy == RSum(LAMBDA e : RMul(G[2][e], RMul(RMul(RPow(a, e[1] + 1), RPow(c, e[3] + 1)), Dir2(e[1], e[3]))),
                 {e \in Supp(G[2]) : e[2] = 0})
      fz == RSum(LAMBDA e : RMul(G[3][e], RMul(RMul(RPow(a, e[1] + 1), RPow(b, e[2] + 1)), Dir2(e[1], e[2]))),
                 {e \in Supp(G[3]) : e[3] = 0})
  IN VRat(RSub(RAdd(RAdd(slant(1, RMul(b, c)), slant(2, RMul(a, c))), slant(3, RMul(a, b))), RAdd(RAdd(fx, fy), fz)))

\* cylindrical shell: lateral faces (R cos t, R sin t, z) with dS = (R cos t, R sin t, 0) dt dz by Wallis' table,
\* top and bottom annuli by the moment table
ShellFaces(F, r) ==
  LET lat(rad) == RSum(LAMBDA e : RMul(RMul(F[1][e], Int1(e[3], r.c[2], r.s[2])), RMul(RPow(rad, e[1] + e[2] + 1), Wallis(e[1] + 1, e[2]))), Supp(F[1]))
      lat2(rad) == RSum(LAMBDA e : RMul(RMul(F[2][e], Int1(e[3], r.c[2], r.s[2])), RMul(RPow(rad, e[1] + e[2] + 1), Wallis(e[1], e[2] + 1))), Supp(F[2]))
      cap == RSum(LAMBDA e : RMul(RMul(F[3][e], RSub(RPow(r.s[2], e[3]), RPow(r.c[2], e[3]))),
                                  RMul(EllMoment(e[1], e[2]), RSub(RPow(r.s[1], e[1] + e[2] + 2), RPow(r.c[1], e[1] + e[2] + 2)))), Supp(F[3]))
  IN VPi(RAdd(RSub(RAdd(lat(r.s[1]), lat2(r.s[1])), RAdd(lat(r.c[1]), lat2(r.c[1]))), cap))

\* sphere of radius R: int_{S^2} w^e dOmega = SphereMoment(e) * pi;  F . n dS = (F1 x + F2 y + F3 z) / R * R^2 dOmega
SphereMoment(i, j, k) == IF ~AllEven(i, j, k) THEN RZero
                         ELSE Norm(4 * DF(i - 1) * DF(j - 1) * DF(k - 1), DF(i + j + k + 1))
BallSurface(F, r) ==
  LET one(v) == RSum(LAMBDA e : RMul(F[v][e], RMul(RPow(r.s[1], TotDeg(e) + 2),
                                     SphereMoment(e[1] + Unit(v)[1], e[2] + Unit(v)[2], e[3] + Unit(v)[3]))), Supp(F[v]))
  IN VPi(RAdd(RAdd(one(1), one(2)), one(3)))

\* half ball: the half sphere (moments above) and the flat disc y = 0 with normal -e_y (disc moments in x, z)
HBallSurface(F, r) ==
  LET one(v) == RSum(LAMBDA e : RMul(F[v][e], RMul(RPow(r.s[1], TotDeg(e) + 2),
                                     HalfSphereMoment(e[1] + Unit(v)[1], e[2] + Unit(v)[2], e[3] + Unit(v)[3]))), Supp(F[v]))
      disc == RSum(LAMBDA e : RMul(F[2][e], RMul(RPow(r.s[1], e[1] + e[3] + 2), EllMoment(e[1], e[3]))),
                   {e \in Supp(F[2]) : e[2] = 0})
  IN VPi(RSub(RAdd(RAdd(one(1), one(2)), one(3)), disc))

-----------------------------------------------------------------------------
(* Stokes' theorem on a curved surface spanned by the boundary of a planar region: the graph                 *)
(*   z = G(x, y) = h + Bump(x, y),   Bump = 0 on the boundary of the region                                   *)
(* has dS = (-G_x, -G_y, 1) dx dy, so the flux of curl F through it is the integral over the planar region    *)
(* of the POLYNOMIAL  (curl F)(x, y, G) . (-G_x, -G_y, 1);  it must be the circulation along the boundary,     *)
(* i.e. CircByStokes (flat surface).                                                                         *)
Lin(v, c0, c1) == PAdd(PConst(c0), PMono(KVec(v, 1), c1))          \* c0 + c1 x_v
Bump(r) ==
  CASE r.k = "ell"  -> \* 1 - ((x - c1)/a)^2 - ((y - c2)/b)^2
         LET u == Lin(1, RNeg(RDiv(r.c[1], r.s[1])), RInv(r.s[1]))  w == Lin(2, RNeg(RDiv(r.c[2], r.s[2])), RInv(r.s[2]))
         IN PSub(PSub(PConst(ROne), PMul(u, u)), PMul(w, w))
    [] r.k = "rect" -> \* (x - x0)(x - x1)(y - y0)(y - y1)
         PMul(PMul(Lin(1, RNeg(r.c[1]), ROne), Lin(1, RNeg(r.s[1]), ROne)),
              PMul(Lin(2, RNeg(r.c[2]), ROne), Lin(2, RNeg(r.s[2]), ROne)))
    [] r.k = "tri"  -> \* u v (1 - u - v), u = (x - c1)/s1, v = (y - c2)/s2
         LET u == Lin(1, RNeg(RDiv(r.c[1], r.s[1])), RInv(r.s[1]))  w == Lin(2, RNeg(RDiv(r.c[2], r.s[2])), RInv(r.s[2]))
         IN PMul(PMul(u, w), PSub(PSub(PConst(ROne), u), w))
Graph(r) == PForce(PAdd(PConst(r.c[3]), Bump(r)))
\* [ok |-> everything fits below exponent D, val |-> the integral over the graph]
OverGraph(F, r) ==
  LET g  == Graph(r)
      gx == PForce(PDiff(g, 1))  gy == PForce(PDiff(g, 2))
      C  == [i \in 1..3 |-> PForce(Curl(F)[i])]
      ok1 == \A i \in 1..3 : SubstSafe(C[i], g)
      c1 == PSubstZ(C[1], g)  c2 == PSubstZ(C[2], g)  c3 == PSubstZ(C[3], g)
      ok2 == MulSafe(c1, gx) /\ MulSafe(c2, gy)
      integrand == PForce(PSub(c3, PAdd(PMul(gx, c1), PMul(gy, c2))))
  IN  IF ok1 /\ ok2 THEN [ok |-> TRUE, val |-> IntRegion(integrand, [r EXCEPT !.c = <<r.c[1], r.c[2], RZero>>])]
      ELSE [ok |-> FALSE, val |-> VRat(RZero)]
\* checked in configurations with D >= 4, where every field of degree <= 2 fits (hence "ok" is required)
CurvedStokes == reg.k \in PlanarKinds =>
                  LET o == OverGraph(fld, reg) IN o.ok /\ o.val = CircByStokes(fld, reg)

-----------------------------------------------------------------------------
(* fields given natively in cylindrical / spherical components, as Cartesian polynomial fields:              *)
(*   e_r = (x, y, 0) / r, e_theta = (-y, x, 0) / r, e_z  (cylindrical);   e_r = (x, y, z) / r  (spherical)    *)
(* n = [sys, comp, a, c] is the field  r^a z^c e_comp  (sys "cyl")  or  r^a e_r  (sys "sph", comp 1, c 0)    *)
RhoPow(m) == [e \in Exps |-> IF e[3] = 0 /\ AllEven(e[1], e[2], 0) /\ e[1] + e[2] = 2 * m
                             THEN R(Binom(m, e[1] \div 2)) ELSE RZero]                      \* (x^2 + y^2)^m
RadPow(m) == [e \in Exps |-> IF AllEven(e[1], e[2], e[3]) /\ TotDeg(e) = 2 * m
                             THEN R(Fact(m) \div (Fact(e[1] \div 2) * Fact(e[2] \div 2) * Fact(e[3] \div 2)))
                             ELSE RZero]                                                   \* (x^2 + y^2 + z^2)^m
\* (sys "sph", comp 2: the azimuthal field  m(x,y,z) * r sin(phi) e_theta = m * (-y, x, 0),  m = x^n.m a monomial)
NativeOK(n) == IF n.sys = "sph" THEN (n.comp = 1 /\ n.a % 2 = 1 /\ n.c = 0) \/ (n.comp = 2 /\ n.m \in Exps)
               ELSE (n.comp \in {1, 2} /\ n.a % 2 = 1) \/ (n.comp = 3 /\ n.a % 2 = 0)
NativeField(n) ==
  IF n.sys = "sph" /\ n.comp = 2
  THEN <<PNeg(PMono(EAdd(n.m, <<0, 1, 0>>), ROne)), PMono(EAdd(n.m, <<1, 0, 0>>), ROne), PZero>>
  ELSE IF n.sys = "sph"
  THEN LET P == RadPow((n.a - 1) \div 2) IN <<PMulMono(P, <<1, 0, 0>>), PMulMono(P, <<0, 1, 0>>), PMulMono(P, <<0, 0, 1>>)>>
  ELSE LET P == PMulMono(RhoPow(IF n.comp = 3 THEN n.a \div 2 ELSE (n.a - 1) \div 2), <<0, 0, n.c>>) IN
       CASE n.comp = 1 -> <<PMulMono(P, <<1, 0, 0>>), PMulMono(P, <<0, 1, 0>>), PZero>>
         [] n.comp = 2 -> <<PNeg(PMulMono(P, <<0, 1, 0>>)), PMulMono(P, <<1, 0, 0>>), PZero>>
         [] n.comp = 3 -> <<PZero, PZero, P>>
NoM == <<0, 0, 0>>
NativeFields(k) ==
  IF k \in {"ball", "hball"}
  THEN {[sys |-> "sph", comp |-> 1, a |-> a, c |-> 0, m |-> NoM] : a \in {1, 3}}
       \cup {[sys |-> "sph", comp |-> 2, a |-> 0, c |-> 0, m |-> m] : m \in {e \in Exps : TotDeg(e) <= 1}}
  ELSE {[sys |-> "cyl", comp |-> 1, a |-> a, c |-> c, m |-> NoM] : a \in {1, 3}, c \in 0..2}
       \cup {[sys |-> "cyl", comp |-> 2, a |-> 1, c |-> c, m |-> NoM] : c \in 0..1}
       \cup {[sys |-> "cyl", comp |-> 3, a |-> a, c |-> c, m |-> NoM] : a \in {0, 2}, c \in 0..3}
SolidSurface(F, r) == CASE r.k = "shell" -> ShellFaces(F, r) [] r.k = "ball" -> BallSurface(F, r)
                        [] r.k = "hball" -> HBallSurface(F, r)
TermSet(p) == {<<e, p[e]>> : e \in Supp(p)}

-----------------------------------------------------------------------------
(* the state space: vector fields of FieldOps x regions *)
\* (starts from the zero field so that TLC's workers share the basis fields)
IInit == kind = "v" /\ fld = VZero /\ terms = <<>> /\ reg \in Regions
INext == /\ Len(terms) < MaxTerms
         /\ \E b \in BasisV(MaxDeg) :
              /\ IF terms = <<>> THEN TRUE ELSE Idx(b) >= Idx(terms[Len(terms)])
              /\ fld' = VAdd(fld, FieldOf(b))
              /\ terms' = Append(terms, b)
         /\ UNCHANGED <<kind, reg>>

Stokes == CASE reg.k = "ell"  -> EllCirc(fld, reg, ROne) = CircByStokes(fld, reg)
            [] reg.k = "rect" -> RectCirc(fld, reg) = CircByStokes(fld, reg)
            [] reg.k = "tri"  -> TriCirc(fld, reg) = CircByStokes(fld, reg)
            [] OTHER -> TRUE
Green  == CASE reg.k = "ell"  -> EllFlux(fld, reg, ROne) = FluxByGreen(fld, reg)
            [] reg.k = "rect" -> RectFlux(fld, reg) = FluxByGreen(fld, reg)
            [] reg.k = "tri"  -> TriFlux(fld, reg) = FluxByGreen(fld, reg)
            [] OTHER -> TRUE
Gauss  == CASE reg.k = "box"   -> BoxFaces(fld, reg) = FluxByGauss(fld, reg)
            [] reg.k = "tet"   -> TetFaces(fld, reg) = FluxByGauss(fld, reg)
            [] reg.k = "shell" -> ShellFaces(fld, reg) = FluxByGauss(fld, reg)
            [] reg.k = "ball"  -> BallSurface(fld, reg) = FluxByGauss(fld, reg)
            [] reg.k = "hball" -> HBallSurface(fld, reg) = FluxByGauss(fld, reg)
            [] OTHER -> TRUE
\* the same for the fields given natively in curvilinear components (checked once per shell / ball)
GaussNative ==
  (terms = <<>> /\ reg.k \in {"shell", "ball", "hball"}) =>
     \A n \in NativeFields(reg.k) :
        /\ NativeOK(n)
        /\ SolidSurface(NativeField(n), reg) = FluxByGauss(NativeField(n), reg)

Fns(r) == IF r.k \in PlanarKinds THEN {"circ", "flux2"} ELSE {"flux3"}
ReverseNegates ==
  Reversible(reg) =>
  /\ \A fn \in Fns(reg) : Expected(fn, fld, Rev(reg)) = ValNeg(Expected(fn, fld, reg))
  /\ CASE reg.k = "ell"  -> /\ EllCirc(fld, Rev(reg), ROne) = ValNeg(EllCirc(fld, reg, ROne))
                            /\ EllFlux(fld, Rev(reg), ROne) = ValNeg(EllFlux(fld, reg, ROne))
       [] reg.k = "rect" -> /\ RectCirc(fld, Rev(reg)) = ValNeg(RectCirc(fld, reg))
                            /\ RectFlux(fld, Rev(reg)) = ValNeg(RectFlux(fld, reg))
       [] reg.k = "tri"  -> /\ TriCirc(fld, Rev(reg)) = ValNeg(TriCirc(fld, reg))
                            /\ TriFlux(fld, Rev(reg)) = ValNeg(TriFlux(fld, reg))
       [] OTHER -> BoxFaces(fld, Rev(reg)) = ValNeg(BoxFaces(fld, reg))
SpeedCancels ==
  reg.k = "ell" => \A k \in {R(2), R(3), <<1, 2>>} :
                      /\ EllCirc(fld, reg, k) = EllCirc(fld, reg, ROne)
                      /\ EllFlux(fld, reg, k) = EllFlux(fld, reg, ROne)
\* any surface spanned by the curve gives the same circulation: (curl F) has no sources (DivCurlZero of FieldOps)

ValOK(v) == IsRat(v.q) /\ IsRat(v.p)
ITypeOK == /\ TypeOK /\ reg \in Regions
           /\ \A fn \in Fns(reg) : ValOK(Expected(fn, fld, reg))

-----------------------------------------------------------------------------
(* emission (spec -> code): expected values of every function for the field and the region *)
\* The required values do not depend on WHICH coordinate-system object of a kind the field is given in, nor on what was
\* computed before in the same process: every case on a shell / ball / half ball is to be replayed along this history of
\* system objects (two existing ones, a newly created one, the first again); Expected has no such argument.
SystemHistory == <<"A", "B", "new", "A">>

INativeEmit ==
  (terms = <<>> /\ reg.k \in {"shell", "ball", "hball"}) =>
     \A n \in NativeFields(reg.k) :
        PrintT(ToJson([native |-> n, reg |-> reg, history |-> SystemHistory,
                       cart |-> <<TermSet(NativeField(n)[1]), TermSet(NativeField(n)[2]), TermSet(NativeField(n)[3])>>,
                       flux3 |-> Expected("flux3", NativeField(n), reg)]))

IEmit == Emitted =>
  PrintT(ToJson(
    IF reg.k \notin PlanarKinds
    THEN [terms |-> terms, reg |-> reg, history |-> IF reg.k \in {"shell", "ball", "hball"} THEN SystemHistory ELSE <<>>,
          flux3 |-> Expected("flux3", fld, reg), flux3rev |-> Expected("flux3", fld, Rev(reg))]
    ELSE [terms |-> terms, reg |-> reg, planar |-> IF Planar(fld, reg) THEN 1 ELSE 0,
          circ |-> Expected("circ", fld, reg), circrev |-> Expected("circ", fld, Rev(reg)),
          flux2 |-> Expected("flux2", fld, reg), flux2rev |-> Expected("flux2", fld, Rev(reg))]))
=============================================================================
