--------------------------- MODULE VecArithTrace ---------------------------
(* C10, code -> spec.  harness/c10.py calls the real arithmetics.py          *)
(* functions on every operand pair / triple and records WHAT THEY RETURNED   *)
(* (integers; rationals as normalised <<n, d>>; vectors zero-extended to 3). *)
(* This module steps through the records and decides, in TLC's integer /     *)
(* rational arithmetic,                                                      *)
(*   - the identities of the statement ON THE RECORDED REAL RESULTS          *)
(*     (commutativity, inverse, distributivity, symmetry, |a|^2 = a.a,       *)
(*     antisymmetry, orthogonality, Lagrange, proj + rej = a, rej . b = 0,   *)
(*     |unit| = 1, associativity, bilinearity), and                          *)
(*   - that every recorded result is the value of the VecArith operator.     *)
(* A failing record is printed with the names of the failing clauses; the    *)
(* harness turns each into a violation.                                      *)
EXTENDS VecArith, IOUtils

Recs == JsonDeserialize(IOEnv.TRACE_FILE)

VARIABLE l            \* number of records consumed

RV(x)     == [i \in 1..3 |-> R(Pad3(x)[i])]                 \* integer vector as rationals
RVAdd(p, q) == [i \in 1..3 |-> RAdd(p[i], q[i])]

PairClauses == <<"add", "add_comm", "sub", "sub_inverse", "add_inverse", "dot", "dot_sym", "magsq", "magsq_is_self_dot",
                 "cross", "cross_antisym", "cross_orth", "lagrange", "scale", "scale_distrib", "dot_homog",
                 "cross_homog", "proj", "rej", "proj_plus_rej", "rej_orth", "unit", "unit_magnitude", "eq", "eq_comm">>

PairHolds(n, r) ==
  LET a == r.a  b == r.b IN
  CASE n = "add"          -> r.add_ab = Pad3(CAdd(a, b))
    [] n = "add_comm"     -> r.add_ab = r.add_ba
    [] n = "sub"          -> r.sub_ab = Pad3(CSub(a, b))
    [] n = "sub_inverse"  -> r.sab_b = Pad3(a)                       \* (a + b) - b = a
    [] n = "add_inverse"  -> r.sab_p = Pad3(a)                       \* (a - b) + b = a
    [] n = "dot"          -> r.dot_ab = CDot(a, b)
    [] n = "dot_sym"      -> r.dot_ab = r.dot_ba
    [] n = "magsq"        -> r.msq_a = CMagSq(a) /\ r.msq_b = CMagSq(b)
    [] n = "magsq_is_self_dot" -> r.msq_a = r.dot_aa
    [] n = "cross"        -> r.cr_ab = CCross(a, b)
    [] n = "cross_antisym" -> r.cr_ab = CNeg(r.cr_ba)
    [] n = "cross_orth"   -> r.d_cr_a = 0 /\ r.d_cr_b = 0           \* (a x b).a, (a x b).b as returned by dot_vectors
    [] n = "lagrange"     -> r.msq_cr = r.msq_a * r.msq_b - r.dot_ab * r.dot_ab
    [] n = "scale"        -> \A i \in DOMAIN r.sc : r.sc[i].ka = Pad3(CScale(r.sc[i].k, a))
    [] n = "scale_distrib" -> \A i \in DOMAIN r.sc : r.sc[i].l = r.sc[i].r          \* k(a + b) = ka + kb
    [] n = "dot_homog"    -> \A i \in DOMAIN r.sc : r.sc[i].dl = r.sc[i].k * r.dot_ab
    [] n = "cross_homog"  -> \A i \in DOMAIN r.sc : r.sc[i].cl = CScale(r.sc[i].k, r.cr_ab)
    [] n = "proj"         -> r.hp => \A i \in 1..3 : r.pr[i] = Norm(Pad3(ProjNum(a, b))[i], ProjDen(b))
    [] n = "rej"          -> r.hp => \A i \in 1..3 : r.rj[i] = Norm(Pad3(RejNum(a, b))[i], ProjDen(b))
    [] n = "proj_plus_rej" -> r.hp => r.prj = RV(a) /\ RVAdd(r.pr, r.rj) = RV(a)
    [] n = "rej_orth"     -> r.hp => r.d_rj_b = RZero
    [] n = "unit"         -> r.hu => \A i \in 1..3 : r.usq[i] = (IF i <= Len(a) THEN UnitSq(a)[i] ELSE RZero)
                                     /\ r.usg = Pad3(UnitSign(a))
    [] n = "unit_magnitude" -> r.hu => RSum(r.usq) = ROne /\ r.msq_u = ROne
    [] n = "eq"           -> r.eq_ab = CEq(a, b) /\ r.eq_aa
    [] n = "eq_comm"      -> r.eq_comm
    [] OTHER -> FALSE

TripleClauses == <<"assoc", "assoc_model", "variadic", "dot_bilinear", "cross_bilinear">>

TripleHolds(n, r) ==
  CASE n = "assoc"         -> r.l = r.r                                           \* (a + b) + c = a + (b + c)
    [] n = "assoc_model"   -> r.l = Pad3(CAdd(CAdd(r.a, r.b), r.c))
    [] n = "variadic"      -> r.v = r.l /\ r.sv = Pad3(CSub(CSub(r.a, r.b), r.c))
    [] n = "dot_bilinear"  -> r.d_l = r.d_ac + r.d_bc /\ r.d_r = r.d_ca + r.d_cb /\ r.d_l = r.d_r
    [] n = "cross_bilinear" -> r.c_l = r.c_s /\ r.c_r = r.c_rs /\ r.c_l = CNeg(r.c_r)
    [] OTHER -> FALSE

Failing(r) == IF r.k = "pair" THEN SelectSeq(PairClauses, LAMBDA n : ~PairHolds(n, r))
              ELSE SelectSeq(TripleClauses, LAMBDA n : ~TripleHolds(n, r))

Operands(r) == IF r.k = "pair" THEN <<[sys |-> 1, c |-> r.a], [sys |-> 1, c |-> r.b]>>
               ELSE <<[sys |-> 1, c |-> r.a], [sys |-> 1, c |-> r.b], [sys |-> 1, c |-> r.c]>>

TInit == l = 0 /\ ops = <<>>
TNext == l < Len(Recs) /\ l' = l + 1 /\ ops' = Operands(Recs[l + 1])

\* total verdict per record: either every clause holds or the record is reported
Checked == l > 0 => LET bad == Failing(Recs[l]) IN
                      bad = <<>> \/ PrintT(ToJson([fail |-> Recs[l].id, clauses |-> bad]))
\* the operands of every record satisfy the model's own laws (ties the trace to the checked model)
ModelLaws == Laws2 /\ Laws3
AllConsumed == TLCGet("stats").diameter = Len(Recs) + 1          \* POSTCONDITION
=============================================================================
