---------------------------- MODULE CollectTrace ----------------------------
(* code -> spec for C05 and C06: post-order events recorded (hook H3) while  *)
(* the real collectors run on real workloads (the repository's own tests,    *)
(* catalogue calls) are validated node by node against the class-level       *)
(* meaning of the statements.  Real values are floats or irrational, so the  *)
(* value is abstracted to a class; the dimension vector is exact.            *)
(*                                                                          *)
(* A token (one recorded exit of a collector call) is                        *)
(*   [k   kind: "q" quantity collector (C05) / "e" expression collector (C06)*)
(*    op  node kind,  n  number of operands whose events precede it,         *)
(*    c   class of the returned value: zero fin inf ninf nan cplx sym err,   *)
(*    d   returned dimension vector (8 rationals), hv/v exact rational value *)
(*        of the returned number when it is a small rational (exponents),    *)
(*    dd  declared dimension (functions with a declared dimension),          *)
(*    cnt derivative orders]                                                 *)
(* A node is accepted iff the recorded outcome is one the statement allows   *)
(* for the recorded outcomes of its operands: refusal exactly where stated,  *)
(* and on success the dimension obtained from the operands' dimensions.      *)
EXTENDS Dims, Sequences, FiniteSets, TLC, Json, IOUtils

Traces == JsonDeserialize(IOEnv.TRACE_FILE)

VARIABLES t, l, stack
vars == <<t, l, stack>>

BaseSeq == <<"L", "M", "T", "I", "K", "N", "J", "A">>
DimOf(seq) == [b \in Base |-> seq[CHOOSE i \in 1..8 : BaseSeq[i] = b]]

AnyC == {"zero", "inf", "ninf", "nan"}
E(c, d, hv, v) == [c |-> c, d |-> d, hv |-> hv, v |-> v]
IsAny(x) == x.c \in AnyC

NonAny(xs) == {i \in DOMAIN xs : ~IsAny(xs[i])}
Compatible(xs) == \A i, j \in NonAny(xs) : Same(xs[i].d, xs[j].d)
HasNonAny(xs) == NonAny(xs) # {}
CommonDim(xs) == xs[CHOOSE i \in NonAny(xs) : TRUE].d
ErrIn(xs) == \E i \in DOMAIN xs : xs[i].c = "err"
CountC(xs, c) == Cardinality({i \in DOMAIN xs : xs[i].c = c})

RECURSIVE ProdDim(_)
ProdDim(xs) == IF xs = <<>> THEN D1 ELSE DMul(Head(xs).d, ProdDim(Tail(xs)))

\* ---- allowed value classes of a successful node ------------------------------
MulClasses(xs) ==
  IF CountC(xs, "nan") > 0 THEN {"nan"}
  ELSE IF CountC(xs, "zero") > 0 THEN (IF CountC(xs, "inf") + CountC(xs, "ninf") > 0 THEN {"nan"} ELSE {"zero"})
  ELSE IF CountC(xs, "inf") + CountC(xs, "ninf") > 0 THEN {"inf", "ninf", "cplx", "nan"}
  ELSE IF CountC(xs, "sym") > 0 THEN {"sym", "fin", "zero"}
  ELSE IF CountC(xs, "cplx") > 0 THEN {"cplx", "fin", "zero"}
  ELSE {"fin", "sym", "zero", "inf", "ninf"}                 \* "sym": returned as a (new) quantity object; float under/overflow
AddClasses(xs) ==
  IF CountC(xs, "nan") > 0 THEN {"nan"}
  ELSE IF CountC(xs, "inf") > 0 /\ CountC(xs, "ninf") > 0 THEN {"nan"}
  ELSE IF CountC(xs, "inf") > 0 THEN {"inf", "nan"}
  ELSE IF CountC(xs, "ninf") > 0 THEN {"ninf", "nan"}
  ELSE IF \A i \in DOMAIN xs : xs[i].c = "zero" THEN {"zero"}
  ELSE {"fin", "zero", "cplx", "sym"}

\* ---- what the statement allows for one node --------------------------------------
\* result: the set of allowed outcomes, each [err, classes, anydim, d]
Refuse == [err |-> TRUE, cls |-> {"err"}, free |-> TRUE, d |-> D1]
Accept(cls, free, d) == [err |-> FALSE, cls |-> cls, free |-> free, d |-> d]

\* exponent usable for scaling a dimension
ExpKnown(e) == e.hv /\ AbsI(e.v[1]) < 2000 /\ e.v[2] < 2000
SmallD(d) == \A b \in Base : AbsI(d[b][1]) < 10000 /\ d[b][2] < 10000

RECURSIVE Expect(_, _)
Expect(tok, xs) ==
  CASE tok.op = "leaf" ->                               \* a leaf returns the object's own value class and dimension
         IF tok.ho THEN Accept({tok.oc}, tok.oc \in AnyC, DimOf(tok.od)) ELSE Accept({tok.c}, FALSE, DimOf(tok.d))
    [] tok.op \in {"symbol", "deriv_q"} -> Refuse                            \* free symbol / derivative (C05)
    [] ErrIn(xs) -> Refuse                                                   \* a refused operand refuses the node
    [] tok.op = "mul" ->
         IF \E i \in DOMAIN xs : IsAny(xs[i]) THEN Accept(MulClasses(xs), TRUE, D1)
         ELSE Accept(MulClasses(xs), FALSE, ProdDim(xs))
    [] tok.op \in {"add", "min", "max"} ->
         IF ~Compatible(xs) THEN Refuse
         ELSE IF ~HasNonAny(xs) THEN Accept(IF tok.op = "add" THEN AddClasses(xs) ELSE AnyC, TRUE, D1)
         ELSE Accept(IF tok.op = "add" THEN AddClasses(xs) ELSE {"zero", "fin", "inf", "ninf", "sym"}, FALSE, CommonDim(xs))
    [] tok.op = "abs" ->
         IF IsAny(xs[1]) THEN Accept({"zero", "inf", "nan"}, TRUE, D1)
         ELSE Accept({"fin", "zero", "sym"}, FALSE, xs[1].d)
    [] tok.op = "powr" ->                                                    \* xs = <<exponent, base>> or <<exponent>>
         IF ~IsAny(xs[1]) /\ ~Dimless(xs[1].d) THEN Refuse
         ELSE IF Len(xs) < 2 THEN Refuse
         ELSE Expect([tok EXCEPT !.op = "pow"], <<xs[2], xs[1]>>)
    [] tok.op = "pow" ->                                                     \* xs = <<base, exponent>>
         IF Len(xs) < 2 THEN Refuse
         ELSE IF ~IsAny(xs[2]) /\ ~Dimless(xs[2].d) THEN Refuse
         ELSE IF IsAny(xs[1]) \/ Dimless(xs[1].d) THEN Accept({"zero", "fin", "inf", "ninf", "nan", "cplx", "sym"}, IsAny(xs[1]), D1)
         ELSE IF xs[2].c = "zero" THEN Accept({"fin"}, FALSE, D1)
         ELSE IF ExpKnown(xs[2]) /\ SmallD(xs[1].d) THEN Accept({"fin", "cplx", "sym", "zero", "inf"}, FALSE, DPow(xs[1].d, xs[2].v))
         ELSE Accept({"fin", "cplx", "sym", "zero", "inf"}, TRUE, D1)          \* exponent value not recorded exactly: dimension not decided
    [] tok.op = "func_q" ->                                                  \* elementary function in Quantity construction
         IF \E i \in DOMAIN xs : ~IsAny(xs[i]) /\ ~Dimless(xs[i].d) THEN Refuse
         ELSE Accept({"zero", "fin", "inf", "ninf", "nan", "cplx"}, FALSE, D1)
    [] tok.op = "func_e" -> Accept({"zero", "fin", "inf", "ninf", "nan", "cplx", "sym"}, FALSE, DimOf(tok.dd))
    [] tok.op = "deriv_e" ->                                                 \* xs = <<f, var1, ...>>, tok.cnt orders
         Accept({"sym", "zero", "fin"}, FALSE,
                DDiv(xs[1].d, ProdDim([i \in 1..(Len(xs) - 1) |-> [d |-> DPow(xs[i + 1].d, R(tok.cnt[i]))]])))
    [] OTHER -> Refuse

\* a node that returns a value must have collected every one of its operands (tok.ar = number of operands of the
\* node, tok.n = operand events recorded before it); only a refusal may interrupt the collection
ArityOK(tok) == tok.c = "err" \/ tok.op = "leaf" \/ tok.n = tok.ar
MinNeed(op) == IF op \in {"abs", "deriv_e", "powr"} THEN 1 ELSE 0
SafeExpect(tok, xs) == IF Len(xs) < MinNeed(tok.op) THEN Refuse ELSE Expect(tok, xs)

\* the recorded outcome is one of the allowed ones
NodeOK(tok, xs) ==
  ArityOK(tok) /\
  LET ex == SafeExpect(tok, xs) IN
  IF tok.c = "err" THEN ex.err
  ELSE /\ ~ex.err
       \* the expression collector may return any value wrapped in a (new) quantity object or inside an
       \* unevaluated expression: class "sym" says nothing about the number, only the dimension is judged
       /\ (tok.c \in ex.cls \/ (tok.k = "e" /\ tok.c = "sym"))
       /\ (ex.free \/ tok.c \in AnyC \/ DimOf(tok.d) = ex.d)

TopN(st, n) == SubSeq(st, Len(st) - n + 1, Len(st))
PopN(st, n) == SubSeq(st, 1, Len(st) - n)
Ev == Traces[t].ev
Cur == Ev[l]
\* a refusal may interrupt the collection of the operands: then fewer operand events precede it
CanStep == /\ Len(stack) >= Cur.n /\ NodeOK(Cur, TopN(stack, Cur.n))

Init == /\ t \in 1..Len(Traces) /\ l = 1 /\ stack = <<>>
Step == /\ l <= Len(Ev) /\ CanStep
        /\ stack' = Append(PopN(stack, Cur.n), E(Cur.c, DimOf(Cur.d), Cur.hv, Cur.v))
        /\ l' = l + 1 /\ UNCHANGED t
Spec == Init /\ [][Step]_vars

Accepted == (l = Len(Ev) + 1) => PrintT(ToJson(<<"ACCEPT", Traces[t].tid>>))
Stuck == (l <= Len(Ev) /\ ~CanStep) => PrintT(ToJson(<<"STUCK", Traces[t].tid, l, Cur.op, Cur.c>>))
=============================================================================
