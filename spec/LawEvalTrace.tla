--------------------------- MODULE LawEvalTrace ---------------------------
(* code -> spec for C02 (exact fragment).                                    *)
(* For a call  r = calculate_x(a1, .., an)  of a catalogue function the      *)
(* harness records the two sides of the module's published equation as       *)
(* postfix programs over the arithmetic alphabet of PrintEval (sum, product, *)
(* integer powers, integer and rational literals, pi as an indeterminate)    *)
(* in which the law's symbols are "sym" leaves, together with the images in  *)
(* both prime fields of the exact rational SI values of the arguments and of *)
(* the returned value.  TLC evaluates both sides with the semantics of       *)
(* PrintEval and decides:                                                    *)
(*     HOLDS  both sides have the same value in both fields                  *)
(*     FAILS  they differ in one field: over Q the equation does not hold    *)
(*            for these arguments and this result (a rational identity maps  *)
(*            to an identity mod p, so FAILS is never spurious)              *)
(*     UNDEC  a denominator vanishes mod p (never an alarm)                  *)
(* alt is the same equation with the sign of the result flipped (functions   *)
(* documented to return a magnitude).                                        *)
EXTENDS PrintEval, IOUtils

Recs == JsonDeserialize(IOEnv.TRACE_FILE)     \* [id, a, b, pt1, pt2, alt, pta1, pta2]

VARIABLE t
tvars == <<t, stack, prog>>

Decide(a, b, pt1, pt2) ==
  LET va1 == Value(Primes[1], pt1, a)  vb1 == Value(Primes[1], pt1, b)
      va2 == Value(Primes[2], pt2, a)  vb2 == Value(Primes[2], pt2, b)
  IN  IF va1 = Undef \/ vb1 = Undef \/ va2 = Undef \/ vb2 = Undef THEN "UNDEC"
      ELSE IF va1 = vb1 /\ va2 = vb2 THEN "HOLDS" ELSE "FAILS"

Verdict(r) ==
  LET v == Decide(r.a, r.b, r.pt1, r.pt2) IN
  IF v = "FAILS" /\ r.alt THEN
       (IF Decide(r.a, r.b, r.pta1, r.pta2) = "HOLDS" THEN "HOLDS-MAGNITUDE" ELSE "FAILS")
  ELSE v

TraceInit == t = 1 /\ stack = <<>> /\ prog = <<>>
TraceNext == t <= Len(Recs) /\ t' = t + 1 /\ UNCHANGED <<stack, prog>>
Report == t <= Len(Recs) => PrintT(ToJson(<<Verdict(Recs[t]), Recs[t].id>>))
=============================================================================
