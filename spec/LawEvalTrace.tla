--------------------------- MODULE LawEvalTrace ---------------------------
(* code -> spec for C02 (exact fragment).                                    *)
(* For a call  r = calculate_x(a1, .., an)  of a catalogue function the      *)
(* harness records the two sides of the module's published equation as       *)
(* postfix programs over the arithmetic alphabet of PrintEval (sum, product, *)
(* integer powers, integer and rational literals, pi as an indeterminate)    *)
(* in which the law's symbols are "sym" leaves, together with the images in  *)
(* both prime fields of the exact rational SI values of the arguments and of *)
(* the returned value.  TLC evaluates both sides with the semantics of       *)
(* PrintEval and decides:                                                    *)
(*     HOLDS  both sides have the same value in both fields                  *)
(*     FAILS  they differ in one field: over Q the equation does not hold    *)
(*            for these arguments and this result (a rational identity maps  *)
(*            to an identity mod p, so FAILS is never spurious)              *)
(*     UNDEC  a denominator vanishes mod p (never an alarm)                  *)
(* alt is the same equation with the sign of the result flipped (functions   *)
(* documented to return a magnitude).                                        *)
EXTENDS PrintEval, IOUtils

Recs == JsonDeserialize(IOEnv.TRACE_FILE)     \* [id, a, b, pt1, pt2, alt, pta1, pta2, trig]

VARIABLE t
tvars == <<t, stack, prog>>

Decide(a, b, pt1, pt2) ==
  LET va1 == Value(Primes[1], pt1, a)  vb1 == Value(Primes[1], pt1, b)
      va2 == Value(Primes[2], pt2, a)  vb2 == Value(Primes[2], pt2, b)
  IN  IF va1 = Undef \/ vb1 = Undef \/ va2 = Undef \/ vb2 = Undef THEN "UNDEC"
      ELSE IF va1 = vb1 /\ va2 = vb2 THEN "HOLDS" ELSE "FAILS"

(* Trigonometric functions at rational multiples of pi.  sin/cos/tan of the  *)
(* law are compiled to a NEW leaf holding the exact rational value, with a   *)
(* side record  trig = <<fn, n, d, leaf>>  (fn: 1 sin, 2 cos, 3 tan) whose   *)
(* programs a, b state  argument = n/d * pi.  TLC decides both that equation *)
(* and that the leaf holds the value of this table (n/d in lowest terms).    *)
NoTrig == <<0, 0>>
TrigVal(fn, n, d) ==
  LET m == n % (2 * d) IN
  CASE fn = 1 /\ d = 1 -> <<0, 1>>
    [] fn = 1 /\ d = 2 -> IF m = 1 THEN <<1, 1>> ELSE <<-1, 1>>
    [] fn = 1 /\ d = 6 /\ m \in {1, 5}  -> <<1, 2>>
    [] fn = 1 /\ d = 6 /\ m \in {7, 11} -> <<-1, 2>>
    [] fn = 2 /\ d = 1 -> IF m = 0 THEN <<1, 1>> ELSE <<-1, 1>>
    [] fn = 2 /\ d = 2 -> <<0, 1>>
    [] fn = 2 /\ d = 3 /\ m \in {1, 5} -> <<1, 2>>
    [] fn = 2 /\ d = 3 /\ m \in {2, 4} -> <<-1, 2>>
    [] fn = 3 /\ d = 1 -> <<0, 1>>
    [] fn = 3 /\ d = 4 /\ m \in {1, 5} -> <<1, 1>>
    [] fn = 3 /\ d = 4 /\ m \in {3, 7} -> <<-1, 1>>
    [] OTHER -> NoTrig
\* sanity of the table itself: sin^2 + cos^2 = 1 wherever both are listed, tan = sin / cos
TrigTableOK ==
  \A d \in {1, 2, 3, 4, 6} : \A n \in 0..(2 * d - 1) :
    LET s == TrigVal(1, n, d)  c == TrigVal(2, n, d)  tn == TrigVal(3, n, d)  p == Primes[1] IN
      /\ (s # NoTrig /\ c # NoTrig) =>
            FAdd(p, FMul(p, RatVal(p, s[1], s[2]), RatVal(p, s[1], s[2])),
                    FMul(p, RatVal(p, c[1], c[2]), RatVal(p, c[1], c[2]))) = 1
      /\ (s # NoTrig /\ c # NoTrig /\ tn # NoTrig /\ c[1] # 0) =>
            FMul(p, RatVal(p, tn[1], tn[2]), RatVal(p, c[1], c[2])) = RatVal(p, s[1], s[2])
ASSUME TrigTableOK

TrigVerdict(r) ==
  LET fn == r.trig[1]  n == r.trig[2]  d == r.trig[3]  leaf == r.trig[4]  tv == TrigVal(fn, n, d) IN
  IF tv = NoTrig \/ d < 1 THEN "NOTABLE"
  ELSE IF Decide(r.a, r.b, r.pt1, r.pt2) # "HOLDS" THEN "BADANGLE"
  ELSE IF r.pt1[leaf] = RatVal(Primes[1], tv[1], tv[2]) /\ r.pt2[leaf] = RatVal(Primes[2], tv[1], tv[2]) THEN "HOLDS"
  ELSE "FAILS"

Verdict(r) ==
  LET v == Decide(r.a, r.b, r.pt1, r.pt2) IN
  IF Len(r.trig) = 4 THEN TrigVerdict(r)
  ELSE IF v = "FAILS" /\ r.alt THEN
       (IF Decide(r.a, r.b, r.pta1, r.pta2) = "HOLDS" THEN "HOLDS-MAGNITUDE" ELSE "FAILS")
  ELSE v

TraceInit == t = 1 /\ stack = <<>> /\ prog = <<>>
TraceNext == t <= Len(Recs) /\ t' = t + 1 /\ UNCHANGED <<stack, prog>>
Report == t <= Len(Recs) => PrintT(ToJson(<<Verdict(Recs[t]), Recs[t].id>>))
=============================================================================
