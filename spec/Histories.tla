----------------------------- MODULE Histories -----------------------------
(* C03: laws load and mean the same for every import order and creation       *)
(* history.                                                                   *)
(*                                                                            *)
(* State: the per-prefix counters `ids` of Symbols.tla, the sequence of        *)
(* imported modules, the block of generated names every imported module        *)
(* allocated, and the observed meaning of each module.  Actions:               *)
(*   Create(p, k)   other code creates k objects of prefix p;                   *)
(*   Import(m)      imports m: its not-yet-imported dependencies first, every   *)
(*                  loaded module allocating its block of names;               *)
(*   Observe(m)     the meaning (fingerprint) of an imported module is taken.   *)
(* Property MeaningIsHistoryIndependent: whatever the history, the observed     *)
(* meaning of a module is the one it has in the reference history (imported     *)
(* alone into a fresh process), and it never changes once observed.            *)
(*                                                                            *)
(* The model makes the hazard of the statement explicit.  A module's meaning    *)
(* is a function of the module alone when its code refers to its symbols by     *)
(* identity (shape "identity").  A module that picks "the first" of several     *)
(* candidates in the order SymPy gives them (solve(...)[0], argument order      *)
(* after simplify) depends on the ORDER OF THE GENERATED NAMES of its block     *)
(* (shape "nameorder"), and that order changes when a digit-count boundary      *)
(* (9/10, 99/100, ...) falls inside the block (NameOrder.tla).  TLC shows:      *)
(*   - with identity modules the property holds in all histories (cfg good);    *)
(*   - with one nameorder module it fails, and exactly in the histories that    *)
(*     put the boundary inside the block (cfg bad; expected counterexample).    *)
(* The emitted histories, grouped by where the boundary falls in the target     *)
(* module's blocks (BlockLemma: finitely many classes), are the canonical       *)
(* histories the harness replays for every real module.                        *)
EXTENDS Symbols, NameOrder

CONSTANTS World,      \* the abstract catalogue (see WorldGood / WorldBad)
          Bumps,      \* numbers of objects one Create may make
          MaxHist     \* maximal number of Create / Import steps

VARIABLES imported,   \* sequence of loaded modules, in completion order
          block,      \* [module -> [prefix -> <<first id, size>>]] for loaded modules
          meaning     \* [module -> fingerprint | "unset"]

hvars == <<ids, objs, hist, imported, block, meaning>>

UNSET == "unset"
Mods == World.mods
HP == World.prefixes              \* the prefixes the abstract modules draw on
Range(s) == {s[i] : i \in DOMAIN s}
SizeOf(m, p) == IF p \in DOMAIN World.size[m] THEN World.size[m][p] ELSE 0

\* A small catalogue: target T depends on D; X is unrelated.  The counters start just below the 9/10
\* boundary (the state after `import symplyphysics` in miniature).
WorldGood == [mods     |-> {"T", "D", "X"},
              prefixes |-> {"SYM", "FUN"},
              deps     |-> [T |-> <<"D">>, D |-> <<>>, X |-> <<>>],
              size     |-> [T |-> [SYM |-> 4, FUN |-> 2], D |-> [SYM |-> 2], X |-> [SYM |-> 1, FUN |-> 1]],
              shape    |-> [T |-> "identity", D |-> "identity", X |-> "identity"],
              start    |-> [SYM |-> 3, FUN |-> 6]]
WorldBad  == [WorldGood EXCEPT !.shape = [T |-> "nameorder", D |-> "identity", X |-> "identity"]]

-----------------------------------------------------------------------------
(* stateless parts, shared with the trace specification HistoriesTrace        *)

\* the modules importing m loads, dependencies first, given the set `have` of loaded modules
RECURSIVE Load(_, _), LoadSeq(_, _)
Load(m, have) == IF m \in have THEN <<>> ELSE LoadSeq(World.deps[m], have) \o <<m>>
LoadSeq(ds, have) == IF ds = <<>> THEN <<>>
                     ELSE LET first == Load(Head(ds), have)
                          IN first \o LoadSeq(Tail(ds), have \cup Range(first))

\* an import of m that loads `loaded` is legal after `imp`: m is new, it is among the loaded modules,
\* and nothing is loaded twice
CanImport(imp, m, loaded) == /\ m \notin Range(imp)
                             /\ m \in Range(loaded)
                             /\ Range(loaded) \cap Range(imp) = {}
                             /\ \A i, j \in DOMAIN loaded : i # j => loaded[i] # loaded[j]

\* an observation agrees with the meaning the module has in the reference history
ObserveAgrees(sem, m, fp) == fp = sem[m]

\* blocks allocated when the modules of `seq` are loaded one after the other from counters `cur`
RECURSIVE Alloc(_, _, _)
Alloc(seq, cur, blk) ==
  IF seq = <<>> THEN <<cur, blk>>
  ELSE LET x == Head(seq)
       IN Alloc(Tail(seq),
                [p \in DOMAIN cur |-> cur[p] + SizeOf(x, p)],
                [blk EXCEPT ![x] = [p \in HP |-> <<cur[p] + 1, SizeOf(x, p)>>]])

\* the fingerprint of module m when its names are the blocks blk[m]
FpAt(m, blk) == IF World.shape[m] = "identity" THEN "by-identity"
                ELSE "first-in-name-order-" \o ToString(FirstInNameOrder(blk[m]["SYM"][1], blk[m]["SYM"][2]))

NoBlocks == [m \in Mods |-> [p \in HP |-> <<0, 0>>]]
StartIds == [p \in Prefix |-> IF p \in DOMAIN World.start THEN World.start[p] ELSE 0]
\* the reference history: m imported alone into a fresh process
RefFp(m) == FpAt(m, Alloc(Load(m, {}), StartIds, NoBlocks)[2])

-----------------------------------------------------------------------------
HInit == /\ ids = StartIds
         /\ objs = <<>> /\ hist = <<>>
         /\ imported = <<>>
         /\ block = NoBlocks
         /\ meaning = [m \in Mods |-> UNSET]

HRoom == Len(hist) < MaxHist

Create(p, n) == /\ HRoom
                /\ ids' = [ids EXCEPT ![p] = @ + n]
                /\ hist' = Append(hist, [op |-> "create", p |-> p, k |-> n, m |-> NONE])
                /\ UNCHANGED <<objs, imported, block, meaning>>

Import(m) == /\ HRoom
             /\ m \notin Range(imported)
             /\ LET loaded == Load(m, Range(imported))
                    a == Alloc(loaded, ids, block)
                IN /\ CanImport(imported, m, loaded)
                   /\ ids' = a[1]
                   /\ block' = a[2]
                   /\ imported' = imported \o loaded
             /\ hist' = Append(hist, [op |-> "import", p |-> NONE, k |-> 0, m |-> m])
             /\ UNCHANGED <<objs, meaning>>

Observe(m) == /\ m \in Range(imported)
              /\ meaning[m] = UNSET
              /\ meaning' = [meaning EXCEPT ![m] = FpAt(m, block)]
              /\ UNCHANGED <<ids, objs, hist, imported, block>>

HNext == \/ \E p \in HP, n \in Bumps : Create(p, n)
         \/ \E m \in Mods : Import(m) \/ Observe(m)

HSpec == HInit /\ [][HNext]_hvars

-----------------------------------------------------------------------------
(* Properties *)
HTypeOK == /\ ids \in [Prefix -> Nat]
           /\ Range(imported) \subseteq Mods
           /\ \A i, j \in DOMAIN imported : i # j => imported[i] # imported[j]

\* dependencies are loaded before their dependants
DepsFirst == \A i \in DOMAIN imported : \A d \in Range(World.deps[imported[i]]) :
                \E j \in 1..(i - 1) : imported[j] = d

\* the blocks of loaded modules are disjoint and were handed out by the counters (no name is shared)
BlocksDisjoint ==
  \A m1, m2 \in Range(imported), p \in HP :
     LET a == block[m1][p]  b == block[m2][p] IN
       /\ a[1] + a[2] - 1 <= ids[p]
       /\ (m1 # m2 /\ a[2] > 0 /\ b[2] > 0) => (a[1] + a[2] <= b[1] \/ b[1] + b[2] <= a[1])

\* THE property: the observed meaning is the meaning of the reference history
MeaningIsHistoryIndependent == \A m \in Mods : meaning[m] # UNSET => ObserveAgrees([x \in Mods |-> RefFp(x)], m, meaning[m])
\* and an observed meaning never changes
MeaningStable == [][\A m \in Mods : meaning[m] # UNSET => meaning'[m] = meaning[m]]_hvars
HCountersNeverDecrease == [][\A p \in Prefix : ids'[p] >= ids[p]]_hvars

\* where the digit boundary falls in T's blocks, per prefix (number of names before it; size = not inside)
Where(m) == [p \in HP |-> IF block[m][p][2] = 0 THEN 0 ELSE BoundaryPos(block[m][p][1], block[m][p][2])]
\* the model's explanation of a violation: a nameorder module deviates iff the boundary is inside its SYM block
DeviationIffBoundaryInside ==
  \A m \in Mods : (meaning[m] # UNSET /\ World.shape[m] = "nameorder") =>
     ((meaning[m] # RefFp(m)) <=> (Where(m)["SYM"] < block[m]["SYM"][2]))

-----------------------------------------------------------------------------
(* Emission of the histories that observe T (spec -> code): the harness groups  *)
(* them by `where` and by the shape of the history and replays one real          *)
(* history per class and real module.                                            *)
HEmit == (meaning["T"] # UNSET /\ \A m \in Mods \ {"T"} : meaning[m] = UNSET) =>
            PrintT(ToJson([h |-> hist, where |-> Where("T"), size |-> [p \in HP |-> block["T"][p][2]],
                           fp |-> meaning["T"], ref |-> RefFp("T")]))
=============================================================================
