------------------------------- MODULE DocGen -------------------------------
(* C19: documentation generation is total, faithful, deterministic and       *)
(* leaves SymPy's global evaluation mode at its default.                     *)
(*                                                                          *)
(* Two independent layers, selected by the INIT/NEXT of the configuration:   *)
(*                                                                          *)
(* (a) patch/flag layer (PInit/PNext).  A module is a sequence of statement  *)
(*     kinds.  The machine first builds a module shape (every shape up to    *)
(*     MaxStmts statements is a behaviour), then executes it "in             *)
(*     documentation mode": evaluation is switched off exactly around the    *)
(*     documented public member assignments whose docstring carries a        *)
(*     formula directive and no `sympy-eval` marker (so their formulas are   *)
(*     rendered as written in the source), it is on for every other          *)
(*     statement, and it is back to the default when the module is done.     *)
(*     `log` is what probe statements of a materialised module must observe  *)
(*     when the module goes through the real patcher (harness/c19.py).       *)
(*                                                                          *)
(* (b) walk layer (WInit/WNext).  An abstract source tree (directories:      *)
(*     normal / private / excluded, each with a titled or untitled           *)
(*     __init__; files: documented or undocumented law modules) is built,    *)
(*     then walked with the actions Enter, ProcessLaw, SkipFile,             *)
(*     ProcessPackage, SkipDir.  Exactly one page per documented law module  *)
(*     and per documented package outside private/excluded directories;      *)
(*     package pages list their laws and sub-packages, sorted.               *)
(*                                                                          *)
(* The expectations are written from the statement of C19, not from the      *)
(* generator's code.  Where the statement is silent the model is             *)
(* nondeterministic ("free" statements, optional toctree entries, statements *)
(* after the last documented member may or may not be executed).             *)
EXTENDS Integers, Sequences, FiniteSets, TLC, Json

CONSTANTS MaxStmts,     \* patch layer: maximal number of statements of a module (incl. the module docstring)
          StmtKinds,    \* patch layer: statement kinds that may follow the module docstring
          MaxNodes,     \* walk layer: maximal number of nodes below the root package
          NodeKinds,    \* walk layer: node kinds used
          Ordered       \* walk layer: TRUE = visit in sorted order only (emission), FALSE = every order

VARIABLES mod, phase, pc, flag, log,                       \* patch layer
          tree, rootk, wphase, todo, cur, pend, written, toc, wflag   \* walk layer

pvars == <<mod, phase, pc, flag, log>>
wvars == <<tree, rootk, wphase, todo, cur, pend, written, toc, wflag>>

-----------------------------------------------------------------------------
(* (a) Statement kinds and what the statement says about them.               *)

DocKinds == {"doc_dir",     \* string-literal expression with a formula directive (:laws:symbol:: / :laws:latex::)
             "doc_plain",   \* string-literal expression without a directive
             "doc_eval"}    \* with a directive and the :laws:sympy-eval:: marker
AllStmtKinds == {"moddoc", "import", "pubassign", "privassign", "tupassign",
                 "def_doc", "def_nodoc", "other"} \cup DocKinds

KindAt(m, i) == IF i >= 1 /\ i <= Len(m) THEN m[i] ELSE "none"

\* a string-literal statement has no effect: the mode it runs in cannot be observed
Observable(m, i) == m[i] \notin DocKinds \cup {"moddoc"}

\* a documented public member: a public assignment immediately followed by its docstring
DocumentedMember(m, i) == m[i] = "pubassign" /\ KindAt(m, i + 1) \in DocKinds

\* its formula is rendered as written: directive, no sympy-eval marker
MustBeOff(m, i) == m[i] = "pubassign" /\ KindAt(m, i + 1) = "doc_dir"

\* A directive docstring that does not directly follow a public assignment has no owner the statement
\* would name.  It may be attributed to the nearest preceding thing that can carry documentation (a
\* public assignment or a documented function): the mode of that one statement is left open.
IrregularDir(m, j) == m[j] = "doc_dir" /\ KindAt(m, j - 1) # "pubassign"
Candidate(m, i) == m[i] \in {"pubassign", "def_doc"}
Free(m, i) == /\ Candidate(m, i) /\ ~MustBeOff(m, i)
              /\ \E j \in (i + 1)..Len(m) : IrregularDir(m, j) /\ \A k \in (i + 1)..(j - 1) : ~Candidate(m, k)

Exp(m, i) == IF ~Observable(m, i) THEN "none"
             ELSE IF MustBeOff(m, i) THEN "off"
             ELSE IF Free(m, i) THEN "free" ELSE "on"

ExpSeq(m) == [i \in 1..Len(m) |-> Exp(m, i)]

MaxOf(S) == IF S = {} THEN 0 ELSE CHOOSE x \in S : \A y \in S : y <= x

\* Whose docstring is a string literal?  A string literal documents the assignment statement it follows:
\* the nearest preceding assignment, if nothing but non-assignment statements lie between.  If that
\* assignment binds a plain name (public or private) the name MAY be reported with this text (it MUST
\* when the literal follows directly: DocumentedMember); if it binds no plain name (tuple unpacking,
\* attribute or subscript target) the text belongs to nobody - in particular not to an earlier member.
AssignKinds == {"pubassign", "privassign", "tupassign"}
NearestAssign(m, j) == MaxOf({i \in 1..(j - 1) : m[i] \in AssignKinds})
Owner(m, j) == IF m[j] \notin DocKinds THEN 0
               ELSE LET a == NearestAssign(m, j) IN
                    IF a > 0 /\ m[a] \in {"pubassign", "privassign"} THEN a ELSE 0
OwnerSeq(m) == [j \in 1..Len(m) |-> Owner(m, j)]

\* everything up to the last documented member must be executed (its value is shown); what follows may be dropped
LastRequired(m) == MaxOf({i \in 1..Len(m) : DocumentedMember(m, i)})

-----------------------------------------------------------------------------
(* (a) The machine.                                                          *)

PInit == /\ mod = <<"moddoc">> /\ phase = "build" /\ pc = 1 /\ flag = TRUE /\ log = <<>>
         /\ tree = <<>> /\ rootk = "pkg_u" /\ wphase = "off" /\ todo = {} /\ cur = -1 /\ pend = {}
         /\ written = <<>> /\ toc = <<>> /\ wflag = TRUE

PAppend(k) == /\ phase = "build" /\ Len(mod) < MaxStmts
              /\ mod' = Append(mod, k)
              /\ UNCHANGED <<phase, pc, flag, log>> /\ UNCHANGED wvars

PDisable == /\ phase = "exec" /\ pc <= Len(mod) /\ flag = TRUE
            /\ Exp(mod, pc) \in {"off", "free"}
            /\ flag' = FALSE /\ UNCHANGED <<mod, phase, pc, log>> /\ UNCHANGED wvars

PRestore == /\ phase = "exec" /\ flag = FALSE
            /\ (IF pc > Len(mod) THEN TRUE ELSE Exp(mod, pc) # "off")
            /\ flag' = TRUE /\ UNCHANGED <<mod, phase, pc, log>> /\ UNCHANGED wvars

\* (the first PRun, of the module docstring, ends the build phase)
PRun == /\ phase \in {"build", "exec"} /\ pc <= Len(mod)
        /\ (Exp(mod, pc) = "off" => flag = FALSE)
        /\ (Exp(mod, pc) = "on" => flag = TRUE)
        /\ log' = IF Observable(mod, pc) THEN Append(log, <<pc, flag>>) ELSE log
        /\ pc' = pc + 1 /\ phase' = "exec" /\ UNCHANGED <<mod, flag>> /\ UNCHANGED wvars

\* the module is finished, or everything that follows the last documented member is dropped
\* (a drop at any later point is admitted by the harness as well; two representatives keep the state space small)
PStop == /\ phase = "exec" /\ flag = TRUE /\ pc \in {Len(mod) + 1, LastRequired(mod) + 1}
         /\ phase' = "done" /\ UNCHANGED <<mod, pc, flag, log>> /\ UNCHANGED wvars

PBuild == \E k \in StmtKinds : PAppend(k)
PNext == PBuild \/ PDisable \/ PRestore \/ PRun \/ PStop

-----------------------------------------------------------------------------
(* (a) Properties checked by TLC on the model.                               *)

PTypeOK == /\ \A i \in 1..Len(mod) : mod[i] \in AllStmtKinds
           /\ phase \in {"build", "exec", "done"} /\ flag \in BOOLEAN /\ pc \in 1..(Len(mod) + 1)

FlagTrueAtEnd == phase = "done" => flag = TRUE

\* evaluation is off exactly around documented public members with a directive and no sympy-eval marker
DisabledExactlyAroundDocumentedMembers ==
  \A n \in 1..Len(log) :
     LET i == log[n][1]  f == log[n][2] IN
       /\ (MustBeOff(mod, i) => f = FALSE)
       /\ (f = FALSE => MustBeOff(mod, i) \/ Free(mod, i))
       /\ (f = FALSE => mod[i] \in {"pubassign", "def_doc"})

\* every documented member has been executed when the module is done, each statement at most once, in order
MembersExecuted ==
  phase = "done" =>
     /\ \A i \in 1..LastRequired(mod) : Observable(mod, i) => \E n \in 1..Len(log) : log[n][1] = i
     /\ \A a, b \in 1..Len(log) : a < b => log[a][1] < log[b][1]

\* the log of a completed module is one the declarative expectation admits (what the harness compares with)
LogAdmitted ==
  \A n \in 1..Len(log) :
     LET e == Exp(mod, log[n][1]) IN
       \/ e = "free" \/ (e = "on" /\ log[n][2] = TRUE) \/ (e = "off" /\ log[n][2] = FALSE)

\* a module in which every docstring directly follows a public assignment (all modules of the real tree) is fully decided
NoIrregular(m) == \A j \in 2..Len(m) : m[j] \in DocKinds => m[j - 1] = "pubassign"
RegularShapesDecided == NoIrregular(mod) => \A i \in 1..Len(mod) : Exp(mod, i) # "free"

\* sympy-eval members and undocumented assignments are evaluated
EvalMembersOn == \A i \in 1..Len(mod) :
   (mod[i] \in {"privassign", "tupassign", "import", "other", "def_nodoc"}
     \/ (mod[i] = "pubassign" /\ KindAt(mod, i + 1) \in {"doc_eval"} /\ ~Free(mod, i))) => Exp(mod, i) = "on"

\* the docstring directly after a named assignment is that name's own; nothing after a nameless assignment is anybody's
OwnDocstring == \A i \in 1..Len(mod) :
   /\ (mod[i] \in {"pubassign", "privassign"} /\ KindAt(mod, i + 1) \in DocKinds => Owner(mod, i + 1) = i)
   /\ (mod[i] = "tupassign" /\ KindAt(mod, i + 1) \in DocKinds => Owner(mod, i + 1) = 0)
   /\ (Owner(mod, i) # 0 => \A k \in (Owner(mod, i) + 1)..(i - 1) : mod[k] \notin AssignKinds)

\* emission (spec -> code): one line per module shape
PEmit == (phase = "build" /\ Len(mod) >= 1) =>
            PrintT(ToJson([m |-> mod, x |-> ExpSeq(mod), r |-> LastRequired(mod),
                           dm |-> [i \in 1..Len(mod) |-> DocumentedMember(mod, i)],
                           ow |-> OwnerSeq(mod)]))

-----------------------------------------------------------------------------
(* (b) Source trees.  Node 0 is the root package (always a normal directory). *)

DirKinds == {"pkg_t", "pkg_u",      \* normal directory, __init__ with / without a title
             "priv_t", "priv_u",    \* private directory (leading underscore)
             "excl_t", "excl_u"}    \* excluded directory
FileKinds == {"law_d", "law_u"}     \* law module with / without a titled docstring
IsDirK(k) == k \in DirKinds
Pruned(k) == k \in {"priv_t", "priv_u", "excl_t", "excl_u"}
Private(k) == k \in {"priv_t", "priv_u"}
Titled(k) == k \in {"pkg_t", "priv_t", "excl_t"}

Nodes == 0..Len(tree)
Kind(n) == IF n = 0 THEN rootk ELSE tree[n].k
Parent(n) == tree[n].p
Children(d) == {n \in 1..Len(tree) : tree[n].p = d}
DirChildren(d) == {n \in Children(d) : IsDirK(Kind(n))}
FileChildren(d) == {n \in Children(d) : ~IsDirK(Kind(n))}

\* names sort in the opposite order of creation (the harness names node n "n<key>")
Key(n) == MaxNodes + 1 - n

RECURSIVE SortByKey(_)
SortByKey(S) == IF S = {} THEN <<>>
                ELSE LET m == CHOOSE x \in S : \A y \in S : Key(x) <= Key(y)
                     IN <<m>> \o SortByKey(S \ {m})
MinKey(S) == CHOOSE x \in S : \A y \in S : Key(x) <= Key(y)

\* declarative expectation, from the statement
RECURSIVE Walked(_)
Walked(d) == d = 0 \/ (~Pruned(Kind(d)) /\ Walked(Parent(d)))
HasPage(n) == IF IsDirK(Kind(n)) THEN Walked(n) /\ Titled(Kind(n))
              ELSE Kind(n) = "law_d" /\ Walked(Parent(n))
ExpectedPages == {n \in Nodes : HasPage(n)}
\* sub-packages a package page must list / may additionally list (a non-private directory without a page)
MustList(d) == {n \in DirChildren(d) : HasPage(n)}
MayList(d) == {n \in DirChildren(d) : ~Private(Kind(n))}
LawsOf(d) == {n \in FileChildren(d) : HasPage(n)}

WInit == /\ tree = <<>> /\ rootk \in {"pkg_t", "pkg_u"} /\ wphase = "build" /\ todo = {} /\ cur = -1
         /\ pend = {} /\ written = <<0>> /\ toc = <<>> /\ wflag = TRUE
         /\ mod = <<>> /\ phase = "off" /\ pc = 1 /\ flag = TRUE /\ log = <<>>

\* written[n + 1] = number of pages written for node n
WAdd(p, k) == /\ wphase = "build" /\ Len(tree) < MaxNodes
              /\ p \in Nodes /\ IsDirK(Kind(p))
              /\ (Len(tree) > 0 => p >= tree[Len(tree)].p)        \* canonical order: children grouped by parent
              /\ tree' = Append(tree, [p |-> p, k |-> k])
              /\ written' = Append(written, 0)
              /\ UNCHANGED <<rootk, wphase, todo, cur, pend, toc, wflag>> /\ UNCHANGED pvars

WStart == /\ wphase = "build" /\ wphase' = "walk" /\ todo' = {0}
          /\ UNCHANGED <<tree, rootk, cur, pend, written, toc, wflag>> /\ UNCHANGED pvars

Pick(S, x) == x \in S /\ (Ordered => x = MinKey(S))

SkipDir(d) == /\ wphase = "walk" /\ cur = -1 /\ Pick(todo, d) /\ Pruned(Kind(d))
              /\ todo' = todo \ {d}
              /\ UNCHANGED <<tree, rootk, wphase, cur, pend, written, toc, wflag>> /\ UNCHANGED pvars

Enter(d) == /\ wphase = "walk" /\ cur = -1 /\ Pick(todo, d) /\ ~Pruned(Kind(d))
            /\ cur' = d /\ pend' = FileChildren(d) /\ todo' = todo \ {d}
            /\ UNCHANGED <<tree, rootk, wphase, written, toc, wflag>> /\ UNCHANGED pvars

\* a documented law: its module is executed in documentation mode (evaluation goes off and comes back: layer (a))
ProcessLaw(f) == /\ wphase = "walk" /\ cur # -1 /\ Pick(pend, f) /\ Kind(f) = "law_d" /\ wflag = TRUE
                 /\ written' = [written EXCEPT ![f + 1] = @ + 1]
                 /\ pend' = pend \ {f}
                 /\ UNCHANGED <<tree, rootk, wphase, todo, cur, toc, wflag>> /\ UNCHANGED pvars

SkipFile(f) == /\ wphase = "walk" /\ cur # -1 /\ Pick(pend, f) /\ Kind(f) = "law_u"
               /\ pend' = pend \ {f}
               /\ UNCHANGED <<tree, rootk, wphase, todo, cur, written, toc, wflag>> /\ UNCHANGED pvars

ProcessPackage == /\ wphase = "walk" /\ cur # -1 /\ pend = {} /\ wflag = TRUE
                  /\ IF Titled(Kind(cur))
                     THEN /\ written' = [written EXCEPT ![cur + 1] = @ + 1]
                          /\ toc' = Append(toc, [d |-> cur,
                                 pk |-> SortByKey({n \in DirChildren(cur) : ~Pruned(Kind(n)) /\ Titled(Kind(n))}),
                                 lw |-> SortByKey({n \in FileChildren(cur) : Kind(n) = "law_d"})])
                     ELSE UNCHANGED <<written, toc>>
                  /\ todo' = todo \cup DirChildren(cur)
                  /\ cur' = -1
                  /\ UNCHANGED <<tree, rootk, wphase, pend, wflag>> /\ UNCHANGED pvars

WDone == /\ wphase = "walk" /\ todo = {} /\ cur = -1 /\ wphase' = "done"
         /\ UNCHANGED <<tree, rootk, todo, cur, pend, written, toc, wflag>> /\ UNCHANGED pvars

WBuild == \E p \in 0..MaxNodes, k \in NodeKinds : WAdd(p, k)
WSkipDir == \E d \in todo : SkipDir(d)
WEnter == \E d \in todo : Enter(d)
WProcessLaw == \E f \in pend : ProcessLaw(f)
WSkipFile == \E f \in pend : SkipFile(f)
WNext == WBuild \/ WStart \/ WSkipDir \/ WEnter \/ WProcessLaw \/ WSkipFile \/ ProcessPackage \/ WDone

-----------------------------------------------------------------------------
(* (b) Properties checked by TLC on the model.                               *)

WTypeOK == /\ \A n \in 1..Len(tree) : tree[n].p \in 0..(n - 1) /\ tree[n].k \in DirKinds \cup FileKinds
           /\ \A n \in 1..Len(tree) : IsDirK(Kind(tree[n].p))
           /\ Len(written) = Len(tree) + 1

OnePagePerDocumentedNode ==
  wphase = "done" => \A n \in Nodes : written[n + 1] = IF HasPage(n) THEN 1 ELSE 0

NeverTwice == \A n \in Nodes : written[n + 1] <= 1

NothingFromPrunedDirs ==
  \A n \in 1..Len(tree) : written[n + 1] > 0 => Walked(IF IsDirK(Kind(n)) THEN n ELSE Parent(n))

TocOf(d) == LET S == {i \in 1..Len(toc) : toc[i].d = d} IN toc[CHOOSE i \in S : TRUE]
PackagePagesListTheirChildren ==
  wphase = "done" =>
    /\ \A d \in Nodes : (IsDirK(Kind(d)) /\ HasPage(d)) <=> (\E i \in 1..Len(toc) : toc[i].d = d)
    /\ \A i, j \in 1..Len(toc) : toc[i].d = toc[j].d => i = j
    /\ \A d \in Nodes : (IsDirK(Kind(d)) /\ HasPage(d)) =>
          /\ TocOf(d).lw = SortByKey(LawsOf(d))
          /\ TocOf(d).pk = SortByKey(MustList(d))

WFlagTrueAtEnd == wphase = "done" => wflag = TRUE

\* emission (spec -> code): one line per tree, with the expected page set and toctree entries
WEmit == wphase = "done" =>
   PrintT(ToJson([t |-> tree, r |-> rootk, n |-> MaxNodes,
                  pages |-> SortByKey(ExpectedPages),
                  toc |-> [i \in 1..Len(toc) |->
                             [d |-> toc[i].d, pk |-> toc[i].pk, lw |-> toc[i].lw,
                              opt |-> SortByKey(MayList(toc[i].d) \ MustList(toc[i].d))]]]))
=============================================================================
