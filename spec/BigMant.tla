------------------------------ MODULE BigMant ------------------------------
(* Decimal floating point with a 9-digit mantissa for TLC (32-bit integers). *)
(*                                                                          *)
(* A number is a record [m |-> mantissa, e |-> exponent] with               *)
(*        10^8 <= m < 10^9     and value  m * 10^(e - 8)                     *)
(* i.e. m is the number written with nine significant digits and e its       *)
(* decimal exponent in scientific notation (6.62607015e-34 is                *)
(* [m |-> 662607015, e |-> -34]).  Only positive numbers are needed.         *)
(*                                                                          *)
(* Products are formed with base-1000 limbs so that no intermediate value    *)
(* exceeds 3 * 10^6 + carry (far below 2^31), and rounded half-up to nine    *)
(* digits.                                                                   *)
EXTENDS Integers

E8 == 100000000
E9 == 1000000000

IsBig(x) == x.m >= E8 /\ x.m < E9

Limb0(a) == a % 1000
Limb1(a) == (a \div 1000) % 1000
Limb2(a) == a \div 1000000

BMul(x, y) ==
  LET a0 == Limb0(x.m)  a1 == Limb1(x.m)  a2 == Limb2(x.m)
      b0 == Limb0(y.m)  b1 == Limb1(y.m)  b2 == Limb2(y.m)
      c0 == a0 * b0
      c1 == a0 * b1 + a1 * b0
      c2 == a0 * b2 + a1 * b1 + a2 * b0
      c3 == a1 * b2 + a2 * b1
      c4 == a2 * b2
      d0 == c0 % 1000
      t1 == c1 + (c0 \div 1000)    d1 == t1 % 1000
      t2 == c2 + (t1 \div 1000)    d2 == t2 % 1000
      t3 == c3 + (t2 \div 1000)    d3 == t3 % 1000
      t4 == c4 + (t3 \div 1000)    d4 == t4 % 1000
      d5 == t4 \div 1000                                   \* 10 <= d5 <= 998
      \* the exact product is d5 d4 d3 d2 d1 d0 in base 1000: 17 or 18 decimal digits
      long == d5 >= 100
      top  == IF long THEN d5 * 1000000 + d4 * 1000 + d3
                      ELSE d5 * 10000000 + d4 * 10000 + d3 * 10 + (d2 \div 100)
      up   == IF long THEN d2 >= 500 ELSE (d2 % 100) >= 50
      r    == IF up THEN top + 1 ELSE top
      e    == x.e + y.e + (IF long THEN 1 ELSE 0)
  IN  IF r = E9 THEN [m |-> E8, e |-> e + 1] ELSE [m |-> r, e |-> e]

RECURSIVE BPow(_, _)
BPow(x, n) == IF n = 1 THEN x ELSE BMul(BPow(x, n - 1), x)        \* n >= 1

\* a positive integer below 10^9 as a BigMant number
RECURSIVE BNormI(_, _)
BNormI(n, e) == IF n >= E8 THEN [m |-> n, e |-> e] ELSE BNormI(n * 10, e - 1)
BInt(n) == BNormI(n, 8)

BOne == [m |-> E8, e |-> 0]
BPi  == [m |-> 314159265, e |-> 0]

RECURSIVE Pow10(_)
Pow10(k) == IF k <= 0 THEN 1 ELSE 10 * Pow10(k - 1)

AbsD(a, b) == IF a >= b THEN a - b ELSE b - a

\* distance of two numbers in units of the last (9th) digit of the smaller one; 2 * 10^9 - 1 means "far apart"
Far == 2000000000
BDist(x, y) ==
  IF x.e = y.e THEN AbsD(x.m, y.m)
  ELSE IF x.e = y.e + 1 /\ x.m - E8 < 10000000 THEN (x.m - E8) * 10 + (E9 - y.m)
  ELSE IF y.e = x.e + 1 /\ y.m - E8 < 10000000 THEN (y.m - E8) * 10 + (E9 - x.m)
  ELSE Far

\* equal to p significant digits: at most one unit of the p-th digit apart (1 <= p <= 9)
BClose(x, y, p) == BDist(x, y) <= Pow10(9 - p)

-----------------------------------------------------------------------------
(* Twelve-digit numbers for the relations that hold far more precisely than  *)
(* nine digits (eps0 mu0 c^2 = 1 to parts in 10^10):                         *)
(*   [l |-> <<l3, l2, l1, l0>>, e |-> exponent], base-1000 limbs, l3 in      *)
(*   100..999, value = (l3 l2 l1 l0) * 10^(e - 11).  Products are truncated  *)
(*   to twelve digits (error below 10^-11 relative per product).             *)
HMul(x, y) ==
  LET a0 == x.l[4]  a1 == x.l[3]  a2 == x.l[2]  a3 == x.l[1]
      b0 == y.l[4]  b1 == y.l[3]  b2 == y.l[2]  b3 == y.l[1]
      c0 == a0 * b0
      c1 == a0 * b1 + a1 * b0
      c2 == a0 * b2 + a1 * b1 + a2 * b0
      c3 == a0 * b3 + a1 * b2 + a2 * b1 + a3 * b0
      c4 == a1 * b3 + a2 * b2 + a3 * b1
      c5 == a2 * b3 + a3 * b2
      c6 == a3 * b3
      t1 == c1 + (c0 \div 1000)
      t2 == c2 + (t1 \div 1000)
      t3 == c3 + (t2 \div 1000)   d3 == t3 % 1000
      t4 == c4 + (t3 \div 1000)   d4 == t4 % 1000
      t5 == c5 + (t4 \div 1000)   d5 == t5 % 1000
      t6 == c6 + (t5 \div 1000)   d6 == t6 % 1000
      d7 == t6 \div 1000                                    \* 10 <= d7 <= 998
      long == d7 >= 100
  IN  [l |-> IF long THEN <<d7, d6, d5, d4>>
             ELSE <<d7 * 10 + (d6 \div 100), (d6 % 100) * 10 + (d5 \div 100),
                    (d5 % 100) * 10 + (d4 \div 100), (d4 % 100) * 10 + (d3 \div 100)>>,
       e |-> x.e + y.e + (IF long THEN 1 ELSE 0)]

IsHBig(x) == x.l[1] \in 100..999 /\ \A i \in 2..4 : x.l[i] \in 0..999
HHi(x) == x.l[1] * 1000 + x.l[2]
HLo(x) == x.l[3] * 1000 + x.l[4]
HOne == [l |-> <<100, 0, 0, 0>>, e |-> 0]
HTwo == [l |-> <<200, 0, 0, 0>>, e |-> 0]
HPi  == [l |-> <<314, 159, 265, 359>>, e |-> 0]

\* distance in units of the 12th digit (of the smaller number); Far = far apart
HDist(x, y) ==
  IF x.e = y.e
  THEN IF AbsD(HHi(x), HHi(y)) > 1000 THEN Far ELSE AbsD((HHi(x) - HHi(y)) * 1000000 + HLo(x), HLo(y))
  ELSE IF x.e = y.e + 1 /\ HHi(x) - 100000 <= 9 /\ 999999 - HHi(y) <= 100
       THEN ((HHi(x) - 100000) * 1000000 + HLo(x)) * 10 + (999999 - HHi(y)) * 1000000 + (1000000 - HLo(y))
  ELSE IF y.e = x.e + 1 /\ HHi(y) - 100000 <= 9 /\ 999999 - HHi(x) <= 100
       THEN ((HHi(y) - 100000) * 1000000 + HLo(y)) * 10 + (999999 - HHi(x)) * 1000000 + (1000000 - HLo(x))
  ELSE Far

\* equal within q * 10^-10 relative: q * (leading two digits + 1) units of the 12th digit
HClose(x, y, q) == HDist(x, y) <= q * ((x.l[1] \div 10) + 1)

-----------------------------------------------------------------------------
(* Sanity of the arithmetic itself, checked by TLC (Constants.cfg): on       *)
(* three-digit operands the product is exact and equals integer arithmetic.  *)
Small3(p) == [m |-> p * 1000000, e |-> 0]                      \* p in 100..999: the number p / 100
HMulSane == /\ HMul(HTwo, HTwo) = [l |-> <<400, 0, 0, 0>>, e |-> 0]
            /\ HMul(HPi, HOne) = HPi
            /\ HMul(HPi, HPi) = [l |-> <<986, 960, 440, 109>>, e |-> 0]         \* pi^2 = 9.86960440108936 (truncated operand)
            /\ HMul([l |-> <<299, 792, 458, 0>>, e |-> 8], [l |-> <<299, 792, 458, 0>>, e |-> 8])
                 = [l |-> <<898, 755, 178, 736>>, e |-> 16]                       \* c^2 = 8.98755178736818e16
MulExactOn3Digits == \A p, q \in 100..999 : BMul(Small3(p), Small3(q)) = BNormI(p * q, 4)
=============================================================================
