------------------------------ MODULE BigMant ------------------------------
(* Decimal floating point with a 9-digit mantissa for TLC (32-bit integers). *)
(*                                                                          *)
(* A number is a record [m |-> mantissa, e |-> exponent] with               *)
(*        10^8 <= m < 10^9     and value  m * 10^(e - 8)                     *)
(* i.e. m is the number written with nine significant digits and e its       *)
(* decimal exponent in scientific notation (6.62607015e-34 is                *)
(* [m |-> 662607015, e |-> -34]).  Only positive numbers are needed.         *)
(*                                                                          *)
(* Products are formed with base-1000 limbs so that no intermediate value    *)
(* exceeds 3 * 10^6 + carry (far below 2^31), and rounded half-up to nine    *)
(* digits.                                                                   *)
EXTENDS Integers

E8 == 100000000
E9 == 1000000000

IsBig(x) == x.m >= E8 /\ x.m < E9

Limb0(a) == a % 1000
Limb1(a) == (a \div 1000) % 1000
Limb2(a) == a \div 1000000

BMul(x, y) ==
  LET a0 == Limb0(x.m)  a1 == Limb1(x.m)  a2 == Limb2(x.m)
      b0 == Limb0(y.m)  b1 == Limb1(y.m)  b2 == Limb2(y.m)
      c0 == a0 * b0
      c1 == a0 * b1 + a1 * b0
      c2 == a0 * b2 + a1 * b1 + a2 * b0
      c3 == a1 * b2 + a2 * b1
      c4 == a2 * b2
      d0 == c0 % 1000
      t1 == c1 + (c0 \div 1000)    d1 == t1 % 1000
      t2 == c2 + (t1 \div 1000)    d2 == t2 % 1000
      t3 == c3 + (t2 \div 1000)    d3 == t3 % 1000
      t4 == c4 + (t3 \div 1000)    d4 == t4 % 1000
      d5 == t4 \div 1000                                   \* 10 <= d5 <= 998
      \* the exact product is d5 d4 d3 d2 d1 d0 in base 1000: 17 or 18 decimal digits
      long == d5 >= 100
      top  == IF long THEN d5 * 1000000 + d4 * 1000 + d3
                      ELSE d5 * 10000000 + d4 * 10000 + d3 * 10 + (d2 \div 100)
      up   == IF long THEN d2 >= 500 ELSE (d2 % 100) >= 50
      r    == IF up THEN top + 1 ELSE top
      e    == x.e + y.e + (IF long THEN 1 ELSE 0)
  IN  IF r = E9 THEN [m |-> E8, e |-> e + 1] ELSE [m |-> r, e |-> e]

RECURSIVE BPow(_, _)
BPow(x, n) == IF n = 1 THEN x ELSE BMul(BPow(x, n - 1), x)        \* n >= 1

\* a positive integer below 10^9 as a BigMant number
RECURSIVE BNormI(_, _)
BNormI(n, e) == IF n >= E8 THEN [m |-> n, e |-> e] ELSE BNormI(n * 10, e - 1)
BInt(n) == BNormI(n, 8)

BOne == [m |-> E8, e |-> 0]
BPi  == [m |-> 314159265, e |-> 0]

RECURSIVE Pow10(_)
Pow10(k) == IF k <= 0 THEN 1 ELSE 10 * Pow10(k - 1)

AbsD(a, b) == IF a >= b THEN a - b ELSE b - a

\* distance of two numbers in units of the last (9th) digit of the smaller one; 2 * 10^9 - 1 means "far apart"
Far == 2000000000
BDist(x, y) ==
  IF x.e = y.e THEN AbsD(x.m, y.m)
  ELSE IF x.e = y.e + 1 /\ x.m - E8 < 10000000 THEN (x.m - E8) * 10 + (E9 - y.m)
  ELSE IF y.e = x.e + 1 /\ y.m - E8 < 10000000 THEN (y.m - E8) * 10 + (E9 - x.m)
  ELSE Far

\* equal to p significant digits: at most one unit of the p-th digit apart (1 <= p <= 9)
BClose(x, y, p) == BDist(x, y) <= Pow10(9 - p)

-----------------------------------------------------------------------------
(* Sanity of the arithmetic itself, checked by TLC (Constants.cfg): on       *)
(* three-digit operands the product is exact and equals integer arithmetic.  *)
Small3(p) == [m |-> p * 1000000, e |-> 0]                      \* p in 100..999: the number p / 100
MulExactOn3Digits == \A p, q \in 100..999 : BMul(Small3(p), Small3(q)) = BNormI(p * q, 4)
=============================================================================
