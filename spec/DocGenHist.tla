----------------------------- MODULE DocGenHist -----------------------------
(* C19, histories over a PERSISTENT output directory.                        *)
(*                                                                          *)
(* The statement says generation is deterministic and faithful for "every    *)
(* order in which pages are generated": the documentation directory is kept  *)
(* between runs, sources are edited, and the generator runs again into the   *)
(* same directory.  The model: a source tree (vocabulary of the walk layer   *)
(* of DocGen.tla), a revision counter per source file, and the output        *)
(* directory `out` (per node: no page, or the content a page shows: the      *)
(* revision of its source, and for a package page its sorted toctree).       *)
(* Actions: Add a node / Touch (modify) a source file / Generate.            *)
(* Generate overwrites every page of the current sources with the rendering  *)
(* of the current sources; the invariant is                                  *)
(*   after a generation, whatever happened before, the output shows exactly  *)
(*   what a generation into an empty directory would show.                   *)
(* Every history within the bounds is emitted; harness/c19.py performs it on *)
(* a scratch package with the real generate_laws_docs (same output directory *)
(* throughout) and compares the result with the model's pages / toctrees     *)
(* and, byte for byte, with a fresh generation of the final sources.         *)
EXTENDS DocGen

CONSTANTS MaxBase,      \* nodes of the tree at the first generation (at most)
          MaxEdits      \* edits (Add / Touch) after the first generation (at most)

VARIABLES rev,          \* rev[n + 1]: number of modifications of the source of node n
          out,          \* out[n + 1]: <<>> (no page) or <<content>>
          hist,         \* the history so far (what the harness replays)
          hphase        \* "build" (never generated) | "clean" (just generated) | "dirty" (edited since)

dgvars == <<mod, phase, pc, flag, log, rootk, wphase, todo, cur, pend, toc, wflag>>

Content(n) == IF IsDirK(Kind(n))
              THEN [rev |-> rev[n + 1], pk |-> SortByKey(MustList(n)), lw |-> SortByKey(LawsOf(n))]
              ELSE [rev |-> rev[n + 1], pk |-> <<>>, lw |-> <<>>]

\* the output of a generation into an empty directory
Fresh == [i \in 1..(Len(tree) + 1) |-> IF HasPage(i - 1) THEN <<Content(i - 1)>> ELSE <<>>]

HInit == WInit /\ rev = <<0>> /\ out = <<>> /\ hist = <<>> /\ hphase = "build"

NEdits == Cardinality({i \in 1..Len(hist) : hist[i].ev # "gen"})
NGens == Cardinality({i \in 1..Len(hist) : hist[i].ev = "gen"})

Add(p, k) ==
  /\ p \in Nodes /\ IsDirK(Kind(p))
  /\ IF hphase = "build"
     THEN Len(tree) < MaxBase /\ (Len(tree) > 0 => p >= tree[Len(tree)].p) /\ UNCHANGED <<hist, hphase>>
     ELSE NEdits < MaxEdits /\ hist' = Append(hist, [ev |-> "add", n |-> Len(tree) + 1]) /\ hphase' = "dirty"
  /\ tree' = Append(tree, [p |-> p, k |-> k])
  /\ written' = Append(written, 0)
  /\ rev' = Append(rev, 0)
  /\ UNCHANGED <<out, dgvars>>

\* modify the source of a documented law or of a titled package
Touch(n) ==
  /\ hphase # "build" /\ NEdits < MaxEdits
  /\ n \in Nodes /\ Kind(n) \in {"law_d", "pkg_t"}
  /\ rev' = [rev EXCEPT ![n + 1] = @ + 1]
  /\ hist' = Append(hist, [ev |-> "touch", n |-> n])
  /\ hphase' = "dirty"
  /\ UNCHANGED <<tree, written, out, dgvars>>

\* generate into the existing output directory: every page of the current sources is (re)written
Generate ==
  /\ hphase \in {"build", "dirty"}
  /\ out' = [i \in 1..(Len(tree) + 1) |->
               IF HasPage(i - 1) THEN <<Content(i - 1)>> ELSE IF i <= Len(out) THEN out[i] ELSE <<>>]
  /\ hist' = Append(hist, [ev |-> "gen", n |-> Len(tree)])
  /\ hphase' = "clean"
  /\ UNCHANGED <<tree, written, rev, dgvars>>

HNext == \/ \E p \in 0..(MaxBase + MaxEdits), k \in NodeKinds : Add(p, k)
         \/ \E n \in 0..(MaxBase + MaxEdits) : Touch(n)
         \/ Generate

\* the property: incremental = from scratch
IncrementalEqualsFresh == hphase = "clean" => out = Fresh
NoPageLost == \A i \in 1..Len(out) : (hphase # "build" /\ i <= Len(Fresh) /\ Fresh[i] # <<>> /\ hphase = "clean") => out[i] # <<>>
HTypeOK == Len(rev) = Len(tree) + 1 /\ hphase \in {"build", "clean", "dirty"} /\ NEdits <= MaxEdits

\* emission: every history that ends with a generation after at least one edit
HEmit == (hphase = "clean" /\ NGens >= 2) =>
   PrintT(ToJson([h |-> hist, t |-> tree, r |-> rootk, n |-> MaxNodes, rev |-> rev,
                  pages |-> SortByKey(ExpectedPages),
                  toc |-> [d \in 1..Len(SortByKey({x \in ExpectedPages : IsDirK(Kind(x))})) |->
                             LET dd == SortByKey({x \in ExpectedPages : IsDirK(Kind(x))})[d] IN
                               [d |-> dd, pk |-> SortByKey(MustList(dd)), lw |-> SortByKey(LawsOf(dd)),
                                opt |-> SortByKey(MayList(dd) \ MustList(dd))]]]))
=============================================================================
