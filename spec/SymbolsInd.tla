----------------------------- MODULE SymbolsInd -----------------------------
(* Unbounded-counter companion of Symbols.tla for Apalache (thorough tier).   *)
(*                                                                            *)
(* The counter part of Symbols.tla with internal names kept as pairs          *)
(* <<prefix, id>> (Apalache has no string concatenation), ids ranging over    *)
(* all naturals.  IndInv is shown to be inductive:                            *)
(*    Init => IndInv,   IndInv /\ Next => IndInv',   IndInv => NoAlias        *)
(* which proves NoAlias for histories of ANY length and ANY counter values    *)
(* (with at most MaxLive objects alive at a time; Bump models creations by     *)
(* other code and objects that died).  TLC's bounded result on Symbols.tla     *)
(* stands on its own if Apalache is unavailable or stalls.                     *)
EXTENDS Integers, Sequences, Apalache

MaxLive == 6

VARIABLES
  \* @type: Str -> Int;
  ids,
  \* @type: Seq({pfx: Str, id: Int});
  objs

Prefix == {"SYM", "FUN", "QTY", "SYS", "C", "VEC", "ANON"}

Init == /\ ids = [p \in Prefix |-> 0]
        /\ objs = <<>>

\* a creation: fresh id of prefix p, new live object
New(p) == /\ Len(objs) < MaxLive
          /\ ids' = [ids EXCEPT ![p] = @ + 1]
          /\ objs' = Append(objs, [pfx |-> p, id |-> ids[p] + 1])
\* an id taken by other code (or by an object that is no longer alive)
Bump(p) == /\ ids' = [ids EXCEPT ![p] = @ + 1]
           /\ UNCHANGED objs
\* the oldest live object dies
Drop == /\ Len(objs) > 0
        /\ objs' = Tail(objs)
        /\ UNCHANGED ids

Next == (\E p \in Prefix : New(p) \/ Bump(p)) \/ Drop

NoAlias == \A i, j \in DOMAIN objs :
             i # j => ~(objs[i].pfx = objs[j].pfx /\ objs[i].id = objs[j].id)

IndInv == /\ \A p \in Prefix : ids[p] >= 0
          /\ DOMAIN ids = Prefix
          /\ Len(objs) <= MaxLive
          /\ \A i \in DOMAIN objs : /\ objs[i].pfx \in Prefix
                                    /\ objs[i].id >= 1 /\ objs[i].id <= ids[objs[i].pfx]
          /\ NoAlias

\* an arbitrary state satisfying IndInv (for the consecution step)
IndInit == /\ ids = Gen(7)
           /\ objs = Gen(MaxLive)
           /\ IndInv
=============================================================================
