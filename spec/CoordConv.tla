------------------------------ MODULE CoordConv ------------------------------
(* C15: the experimental coordinate conversions between the Cartesian,       *)
(* cylindrical and spherical systems.                                        *)
(*                                                                          *)
(* The state is the geometry itself: the Cartesian position `pos` of a point *)
(* and the Cartesian components `vec` of a vector attached to it, together   *)
(* with the system the library currently holds the point in (psys) and the   *)
(* system it holds the vector (and its point of attachment) in (vsys).       *)
(* ConvertPoint(to) / ConvertVector(to) are offered for ALL ordered pairs of *)
(* systems (and onto the current system).  A conversion is a change of       *)
(* description, so pos and vec are invariant along every path: a direct      *)
(* conversion equals the conversion via the third system, and A -> B -> A is *)
(* the identity.  `path` is a history variable: the behaviours are replayed  *)
(* into the real convert_point / convert_vector (harness/c15.py).            *)
(*                                                                          *)
(* The second half of the module is the matrix algebra (exact rationals)     *)
(* that CoordConvTrace.tla applies to the conversion matrices and Jacobians  *)
(* recorded from the real express_base_vectors / express_base_scalars /      *)
(* lame_coefficients.                                                        *)
EXTENDS Rat, Sequences, TLC, Json, FiniteSets

CONSTANTS MaxDepth,     \* length of the emitted paths
          PointIdx,     \* subset of DOMAIN PythagoreanPoints
          Octants,      \* subset of 1..8 (sign patterns)
          VecIdx,       \* subset of DOMAIN TestVectors
          Forms         \* subset of {"plain", "cross", "dot"}: how the attached vector is written (see Init)

VARIABLES pos, vec, psys, vsys, path, start
vars == <<pos, vec, psys, vsys, path, start>>

Systems == {"cart", "cyl", "sph"}

\* x^2 + y^2 and x^2 + y^2 + z^2 perfect squares: all angles have rational sines and cosines
PythagoreanPoints == << <<3, 4, 12>>, <<12, 9, 8>>, <<12, 16, 15>>, <<9, 12, 20>>, <<5, 12, 84>>, <<8, 15, 144>>,
                        <<15, 20, 60>>, <<7, 24, 60>>, <<4, 3, 12>>, <<9, 12, 8>>, <<16, 12, 15>>, <<12, 9, 20>> >>
TestVectors == << <<2, 3, -1>>, <<1, 0, 0>>, <<0, 1, 0>>, <<0, 0, 1>>, <<-4, 1, 5>> >>
SignTable == << <<1, 1, 1>>, <<-1, 1, 1>>, <<1, -1, 1>>, <<-1, -1, 1>>,
                <<1, 1, -1>>, <<-1, 1, -1>>, <<1, -1, -1>>, <<-1, -1, -1>> >>
Signed(p, o) == <<SignTable[o][1] * p[1], SignTable[o][2] * p[2], SignTable[o][3] * p[3]>>

Snapshot == [pos |-> pos, vec |-> vec, psys |-> psys, vsys |-> vsys]
Step(act, to) == [act |-> act, to |-> to, pos |-> pos', vec |-> vec', psys |-> psys', vsys |-> vsys']

\* The attached vector is handed to the library as an expression over the base vectors of its system:
\*   "plain"  A                 a linear combination of base vectors,
\*   "cross"  A x B             base vectors nested inside a cross product,
\*   "dot"    (A . B) B         base vectors nested inside a scalar component,
\* with A, B the Cartesian data below; vec is the Cartesian value of the expression.
Dot3(p, q)   == p[1] * q[1] + p[2] * q[2] + p[3] * q[3]
Cross3(p, q) == <<p[2] * q[3] - p[3] * q[2], p[3] * q[1] - p[1] * q[3], p[1] * q[2] - p[2] * q[1]>>
FormValue(f, A, B) == IF f = "plain" THEN A ELSE IF f = "cross" THEN Cross3(A, B)
                      ELSE <<Dot3(A, B) * B[1], Dot3(A, B) * B[2], Dot3(A, B) * B[3]>>

Init == /\ \E i \in PointIdx, o \in Octants : pos = Signed(PythagoreanPoints[i], o)
        /\ psys \in Systems /\ vsys = psys
        /\ path = <<>>
        /\ \E i \in VecIdx, f \in Forms :
             LET A == TestVectors[i]  B == TestVectors[(i % Len(TestVectors)) + 1] IN
               /\ vec = FormValue(f, A, B)
               /\ start = [pos |-> pos, vec |-> vec, psys |-> psys, vsys |-> vsys, form |-> f, opa |-> A, opb |-> B]

ConvertPoint(to) ==
  /\ Len(path) < MaxDepth
  /\ psys' = to
  /\ UNCHANGED <<pos, vec, vsys, start>>          \* the point does not move
  /\ path' = Append(path, Step("point", to))

ConvertVector(to) ==
  /\ Len(path) < MaxDepth
  /\ vsys' = to
  /\ UNCHANGED <<pos, vec, psys, start>>          \* neither the point of attachment nor the vector changes
  /\ path' = Append(path, Step("vector", to))

Next == \E to \in Systems : ConvertPoint(to) \/ ConvertVector(to)
Spec == Init /\ [][Next]_vars

TypeOK == /\ psys \in Systems /\ vsys \in Systems /\ Len(path) <= MaxDepth
          /\ \A i \in 1..3 : pos[i] \in Int /\ vec[i] \in Int
GeometryInvariant == pos = start.pos /\ vec = start.vec           \* along every path
OffAxis == pos[1] # 0 /\ pos[2] # 0 /\ pos[3] # 0                \* inside every system's domain, no singularity
AllPairsOffered == \A to \in Systems : Len(path) < MaxDepth => ENABLED ConvertPoint(to) /\ ENABLED ConvertVector(to)
\* the point returns to its system with the same position after A -> B -> A (and after any detour)
RoundTrip == [][psys' = start.psys => pos' = start.pos]_vars

Emit == Len(path) = MaxDepth => PrintT(ToJson([start |-> start, path |-> path]))

-----------------------------------------------------------------------------
(* Exact 3x3 matrix algebra over Rat (matrices are <<row1, row2, row3>>).    *)
I3 == << <<ROne, RZero, RZero>>, <<RZero, ROne, RZero>>, <<RZero, RZero, ROne>> >>
RSum3(x, y, z) == RAdd(RAdd(x, y), z)
MMul(A, B) == [i \in 1..3 |-> [j \in 1..3 |-> RSum3(RMul(A[i][1], B[1][j]), RMul(A[i][2], B[2][j]), RMul(A[i][3], B[3][j]))]]
MT(A)      == [i \in 1..3 |-> [j \in 1..3 |-> A[j][i]]]
Col(A, j)  == <<A[1][j], A[2][j], A[3][j]>>
VScaleR(k, v) == <<RMul(k, v[1]), RMul(k, v[2]), RMul(k, v[3])>>
NormSq(v)  == RSum3(RMul(v[1], v[1]), RMul(v[2], v[2]), RMul(v[3], v[3]))

\* determinant through the integer matrix D * A, D the least common denominator
LCM(x, y) == (x \div GCD(x, y)) * y
Den(A)    == LET d(i) == LCM(LCM(A[i][1][2], A[i][2][2]), A[i][3][2]) IN LCM(LCM(d(1), d(2)), d(3))
IntMat(A, D) == [i \in 1..3 |-> [j \in 1..3 |-> A[i][j][1] * (D \div A[i][j][2])]]
Det3I(N) == N[1][1] * (N[2][2] * N[3][3] - N[2][3] * N[3][2])
          - N[1][2] * (N[2][1] * N[3][3] - N[2][3] * N[3][1])
          + N[1][3] * (N[2][1] * N[3][2] - N[2][2] * N[3][1])
DetIsOne(A) == LET D == Den(A) IN D < 1000 /\ Det3I(IntMat(A, D)) = D * D * D

UnitBounded(A) == \A i \in 1..3, j \in 1..3 : AbsI(A[i][j][1]) <= A[i][j][2]     \* entries of a rotation lie in [-1, 1]
IsRotation(A)  == UnitBounded(A) /\ MMul(A, MT(A)) = I3 /\ DetIsOne(A)
IsInverse(A, B) == MMul(A, B) = I3 /\ MMul(B, A) = I3
\* entries small enough for the products above to stay below 2^31
EntryOK(r)  == IsRat(r) /\ AbsI(r[1]) < 2000 /\ r[2] < 100
MatrixOK(A) == \A i \in 1..3, j \in 1..3 : EntryOK(A[i][j])
=============================================================================
