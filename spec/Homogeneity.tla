---------------------------- MODULE Homogeneity ----------------------------
(* C01: dimensional homogeneity of an equation, as a postfix machine over    *)
(* dimension vectors.  A token is a record                                   *)
(*   [op, n, d, a, hn, v]                                                    *)
(*     op  node kind, n arity                                                *)
(*     d   (leaves, declared functions) declared dimension vector            *)
(*     a   (leaves) TRUE for zero / +-oo / NaN / wildcard-dimension symbols  *)
(*     hn  (leaves) TRUE if the leaf is a rational number, v its value       *)
(* and a stack entry is [d, a, hn, v].  A token is ENABLED only if the node  *)
(* satisfies the property (terms of a sum / comparison have equivalent       *)
(* dimensions modulo angle, exponents and arguments of exponential /         *)
(* trigonometric / hyperbolic functions are dimensionless); so a program is  *)
(* consumed to its end iff the equation is homogeneous.  Only the declared   *)
(* dimensions of the leaves come from the library.                           *)
EXTENDS Dims, Sequences, FiniteSets, TLC

Entry(d, a, hn, v) == [d |-> d, a |-> a, hn |-> hn, v |-> v]
AnyE       == Entry(D1, TRUE, FALSE, RZero)
DimE(d)    == Entry(d, FALSE, FALSE, RZero)
NumE(v)    == Entry(D1, FALSE, TRUE, v)

NonAny(xs) == {i \in DOMAIN xs : ~xs[i].a}
AllEquiv(xs) == \A i, j \in NonAny(xs) : Equiv(xs[i].d, xs[j].d)
Common(xs) == IF NonAny(xs) = {} THEN AnyE
              ELSE DimE(xs[CHOOSE i \in NonAny(xs) : \A j \in NonAny(xs) : i <= j].d)
AnyIn(xs) == \E i \in DOMAIN xs : xs[i].a
AngleFree(e) == e.a \/ DimlessUpToAngle(e.d)

RECURSIVE ProdDim(_)
ProdDim(xs) == IF xs = <<>> THEN D1 ELSE DMul(Head(xs).d, ProdDim(Tail(xs)))

SmallDim(d) == \A k \in Base : AbsI(d[k][1]) < 2000 /\ d[k][2] < 2000

\* ---- numeric values of pure-number sub-expressions (needed for exponents) ----
NumSmall(v) == AbsI(v[1]) < 10000 /\ v[2] < 10000
RECURSIVE ProdNum(_)
ProdNum(xs) == IF xs = <<>> THEN ROne ELSE RMul(Head(xs).v, ProdNum(Tail(xs)))
RECURSIVE SumNum(_)
SumNum(xs) == IF xs = <<>> THEN RZero ELSE RAdd(Head(xs).v, SumNum(Tail(xs)))
AllNum(xs) == \A i \in DOMAIN xs : xs[i].hn /\ NumSmall(xs[i].v)

-----------------------------------------------------------------------------
(* Enabledness (the property) and result of one node.                        *)

Ops == {"leaf", "mul", "add", "pow", "fn_strict", "fn_free", "fn_decl", "fn_any", "keep", "same", "deriv", "integ", "rel"}

NodeOK(tok, xs) ==
  CASE tok.op = "leaf"      -> TRUE
    [] tok.op = "mul"       -> TRUE
    [] tok.op = "add"       -> AllEquiv(xs)                          \* terms of a sum
    [] tok.op = "same"      -> AllEquiv(xs)                          \* min/max, piecewise branches, matrix rows
    [] tok.op = "rel"       -> AllEquiv(xs)                          \* both sides of = < <= ...
    [] tok.op = "pow"       -> AngleFree(xs[2])                      \* exponent dimensionless
    [] tok.op = "fn_strict" -> \A i \in DOMAIN xs : AngleFree(xs[i]) \* exp, trigonometric, hyperbolic
    [] tok.op = "fn_free"   -> TRUE
    [] tok.op = "fn_decl"   -> TRUE
    [] tok.op = "fn_any"    -> TRUE
    [] tok.op = "keep"      -> TRUE
    [] tok.op = "deriv"     -> TRUE
    [] tok.op = "integ"     -> IF Len(xs) < 4 THEN Len(xs) = 2     \* limits have the variable's dimension
                               ELSE AllEquiv(<<xs[2], xs[3]>>) /\ AllEquiv(<<xs[2], xs[4]>>)
    [] OTHER                -> FALSE

\* pow on a dimensional base needs the numeric value of the exponent
PowDecided(xs) == xs[1].a \/ xs[2].a \/ DimlessUpToAngle(xs[1].d) \/ (xs[2].hn /\ NumSmall(xs[2].v))

Result(tok, xs) ==
  CASE tok.op = "leaf"      -> Entry(tok.d, tok.a, tok.hn, tok.v)
    [] tok.op = "mul"       -> IF AnyIn(xs) THEN AnyE
                               ELSE IF AllNum(xs) /\ NumSmall(ProdNum(xs)) THEN NumE(ProdNum(xs))
                               ELSE DimE(ProdDim(xs))
    [] tok.op = "add"       -> IF AllNum(xs) /\ NumSmall(SumNum(xs)) THEN NumE(SumNum(xs)) ELSE Common(xs)
    [] tok.op = "same"      -> Common(xs)
    [] tok.op = "rel"       -> AnyE
    [] tok.op = "pow"       -> IF xs[1].a THEN AnyE
                               ELSE IF DimlessUpToAngle(xs[1].d) THEN DimE(D1)
                               ELSE IF xs[2].a \/ ~xs[2].hn THEN AnyE      \* undecided exponent: see PowDecided
                               ELSE DimE(DPow(xs[1].d, xs[2].v))
    [] tok.op = "fn_strict" -> DimE(D1)
    [] tok.op = "fn_free"   -> DimE(D1)
    [] tok.op = "fn_decl"   -> DimE(tok.d)                  \* applied function with a declared dimension
    [] tok.op = "fn_any"    -> AnyE                         \* applied function without a declared dimension
    [] tok.op = "keep"      -> Entry(xs[1].d, xs[1].a, FALSE, RZero)
    [] tok.op = "deriv"     -> IF AnyIn(xs) THEN AnyE ELSE DimE(DDiv(xs[1].d, ProdDim(Tail(xs))))
    [] tok.op = "integ"     -> IF xs[1].a \/ xs[2].a THEN AnyE ELSE DimE(DMul(xs[1].d, xs[2].d))

\* one step of the machine on an explicit stack; returns the new stack
TopN(st, n) == SubSeq(st, Len(st) - n + 1, Len(st))
PopN(st, n) == SubSeq(st, 1, Len(st) - n)
CanStep(tok, st) ==
  /\ tok.op \in Ops /\ Len(st) >= tok.n
  /\ NodeOK(tok, TopN(st, tok.n))
  /\ SmallDim(Result(tok, TopN(st, tok.n)).d)
StepStack(tok, st) == Append(PopN(st, tok.n), Result(tok, TopN(st, tok.n)))

-----------------------------------------------------------------------------
(* Stand-alone machine over a small alphabet: used to model-check the        *)
(* semantics itself (bounded, exhaustive).                                   *)
CONSTANTS MaxLen, LeafNames, OpNames
VARIABLES stack, prog
vars == <<stack, prog>>

L1 == BaseDim("L")
T1 == BaseDim("T")
A1 == BaseDim("A")
Leaf(d, a, hn, v) == [op |-> "leaf", n |-> 0, d |-> d, a |-> a, hn |-> hn, v |-> v]
Op(o, n) == [op |-> o, n |-> n, d |-> D1, a |-> FALSE, hn |-> FALSE, v |-> RZero]
LeafTok == [
  len   |-> Leaf(L1, FALSE, FALSE, RZero),
  time  |-> Leaf(T1, FALSE, FALSE, RZero),
  speed |-> Leaf(DDiv(L1, T1), FALSE, FALSE, RZero),
  angle |-> Leaf(A1, FALSE, FALSE, RZero),
  angv  |-> Leaf(DDiv(A1, T1), FALSE, FALSE, RZero),
  freq  |-> Leaf(DInv(T1), FALSE, FALSE, RZero),
  one   |-> Leaf(D1, FALSE, TRUE, ROne),
  two   |-> Leaf(D1, FALSE, TRUE, R(2)),
  half  |-> Leaf(D1, FALSE, TRUE, <<1, 2>>),
  mone  |-> Leaf(D1, FALSE, TRUE, R(-1)),
  zero  |-> Leaf(D1, TRUE, FALSE, RZero),
  wild  |-> Leaf(D1, TRUE, FALSE, RZero),
  gam   |-> Leaf(D1, FALSE, FALSE, RZero)          \* dimensionless symbol (symbolic exponent)
]
OpTok == [
  mul2 |-> Op("mul", 2), add2 |-> Op("add", 2), add3 |-> Op("add", 3), pow |-> Op("pow", 2),
  sin  |-> Op("fn_strict", 1), log |-> Op("fn_free", 1), abs |-> Op("keep", 1),
  max2 |-> Op("same", 2), ddt |-> Op("deriv", 2), int2 |-> Op("integ", 2), eq |-> Op("rel", 2)
]

Init == stack = <<>> /\ prog = <<>>
Push(l) == /\ Len(prog) + 1 + Len(stack) <= MaxLen
           /\ stack' = StepStack(LeafTok[l], stack) /\ prog' = Append(prog, l)
Apply(o) == /\ Len(prog) + 1 + (Len(stack) - OpTok[o].n) <= MaxLen
            /\ CanStep(OpTok[o], stack)
            /\ (OpTok[o].op = "pow" => PowDecided(TopN(stack, 2)))
            /\ stack' = StepStack(OpTok[o], stack) /\ prog' = Append(prog, o)
Next == (\E l \in LeafNames : Push(l)) \/ (\E o \in OpNames : Apply(o))
Spec == Init /\ [][Next]_vars

\* a weighting of the base dimensions: the degree of homogeneity under the unit
\* change  L -> 2 L, T -> 3 T (exponents of 2 and 3); angle has weight 0
Deg(d) == <<d["L"], d["T"]>>
TypeOK == \A i \in DOMAIN stack : /\ \A k \in Base : IsRat(stack[i].d[k])
                                  /\ (stack[i].a => stack[i].d = D1)
                                  /\ (stack[i].hn => stack[i].d = D1 /\ ~stack[i].a)
\* accepted sums are homogeneous functions: equal degree of all non-wildcard terms (scaling covariance)
SumsHomogeneous ==
  \A n \in {2, 3} : Len(stack) >= n /\ NodeOK(Op("add", n), TopN(stack, n)) =>
     \A i, j \in NonAny(TopN(stack, n)) : Deg(TopN(stack, n)[i].d) = Deg(TopN(stack, n)[j].d)
\* acceptance does not depend on the order of the terms
OrderFree ==
  Len(stack) >= 2 => LET a == stack[Len(stack) - 1]  b == stack[Len(stack)] IN
     /\ NodeOK(Op("add", 2), <<a, b>>) = NodeOK(Op("add", 2), <<b, a>>)
     /\ Result(Op("mul", 2), <<a, b>>) = Result(Op("mul", 2), <<b, a>>)
     /\ (NodeOK(Op("add", 2), <<a, b>>) => Equiv(Result(Op("add", 2), <<a, b>>).d, Result(Op("add", 2), <<b, a>>).d))
\* wildcards never block a node
WildcardsMatch ==
  Len(stack) >= 2 => LET a == stack[Len(stack) - 1] IN
     /\ NodeOK(Op("add", 2), <<a, AnyE>>) /\ NodeOK(Op("rel", 2), <<AnyE, a>>)
     /\ NodeOK(Op("pow", 2), <<a, AnyE>>) /\ NodeOK(Op("fn_strict", 1), <<AnyE>>)
\* angles count as dimensionless
AngleInvisible ==
  \A i \in DOMAIN stack :
     LET e == stack[i]  ea == Entry(DMul(e.d, A1), e.a, FALSE, RZero) IN
       ~e.hn => /\ NodeOK(Op("add", 2), <<e, ea>>)
                /\ (NodeOK(Op("fn_strict", 1), <<e>>) = NodeOK(Op("fn_strict", 1), <<ea>>))
=============================================================================
