---------------------------- MODULE Homogeneity ----------------------------
(* C01: dimensional homogeneity of an equation, as a postfix machine over    *)
(* dimension vectors.  A token is a record                                   *)
(*   [op, n, d, a, hn, v]                                                    *)
(*     op  node kind, n arity                                                *)
(*     d   (leaves, declared functions) declared dimension vector            *)
(*     a   (leaves) TRUE for zero / +-oo / NaN / wildcard-dimension symbols  *)
(*     hn  (leaves) TRUE if the leaf is a rational number, v its value       *)
(*     lt  (leaves) > 0 names a dimensionless symbol (a possible exponent)   *)
(* and a stack entry is [d, a, hn, v, lt, la, lb, st, sd]:                   *)
(*     lt, la, lb   the entry is the number  la * (symbol lt) + lb           *)
(*     st, sd       the entry's dimension is  d * sd ^ (symbol st); this is  *)
(*                  how  volume ** gamma  keeps an exact dimension.           *)
(*   A token is ENABLED only if the node  *)
(* satisfies the property (terms of a sum / comparison have equivalent       *)
(* dimensions modulo angle, exponents and arguments of exponential /         *)
(* trigonometric / hyperbolic functions are dimensionless); so a program is  *)
(* consumed to its end iff the equation is homogeneous.  Only the declared   *)
(* dimensions of the leaves come from the library.                           *)
EXTENDS Dims, Sequences, FiniteSets, TLC

Entry(d, a, hn, v) == [d |-> d, a |-> a, hn |-> hn, v |-> v, lt |-> 0, la |-> RZero, lb |-> RZero, st |-> 0, sd |-> D1]
AnyE       == Entry(D1, TRUE, FALSE, RZero)
DimE(d)    == Entry(d, FALSE, FALSE, RZero)
NumE(v)    == Entry(D1, FALSE, TRUE, v)
\* dimension with a symbolic part; the symbolic part is dropped when it is trivial (modulo angle)
SymE(d, st, sd) == IF st = 0 \/ Equiv(sd, D1) THEN DimE(d) ELSE [DimE(d) EXCEPT !.st = st, !.sd = sd]
\* the number  la * (symbol lt) + lb
LinE(lt, la, lb) == IF la = RZero THEN NumE(lb) ELSE [DimE(D1) EXCEPT !.lt = lt, !.la = la, !.lb = lb]
HasSym(e) == e.st # 0
SymEquiv(x, y) == IF HasSym(x) \/ HasSym(y) THEN x.st = y.st /\ Equiv(x.sd, y.sd) ELSE TRUE

NonAny(xs) == {i \in DOMAIN xs : ~xs[i].a}
AllEquiv(xs) == \A i, j \in NonAny(xs) : Equiv(xs[i].d, xs[j].d) /\ SymEquiv(xs[i], xs[j])
First(xs) == xs[CHOOSE i \in NonAny(xs) : \A j \in NonAny(xs) : i <= j]
Common(xs) == IF NonAny(xs) = {} THEN AnyE
              ELSE SymE(First(xs).d, First(xs).st, First(xs).sd)
AnyIn(xs) == \E i \in DOMAIN xs : xs[i].a
AngleFree(e) == e.a \/ (DimlessUpToAngle(e.d) /\ ~HasSym(e))

RECURSIVE ProdDim(_)
ProdDim(xs) == IF xs = <<>> THEN D1 ELSE DMul(Head(xs).d, ProdDim(Tail(xs)))
RECURSIVE ProdSym(_)
ProdSym(xs) == IF xs = <<>> THEN D1 ELSE DMul(Head(xs).sd, ProdSym(Tail(xs)))
\* symbolic parts combine only if they are powers of one and the same symbol
SymToks(xs) == {xs[i].st : i \in {j \in DOMAIN xs : HasSym(xs[j])}}
OneSym(xs) == Cardinality(SymToks(xs)) <= 1
TheSym(xs) == IF SymToks(xs) = {} THEN 0 ELSE CHOOSE s \in SymToks(xs) : TRUE

SmallDim(d) == \A k \in Base : AbsI(d[k][1]) < 2000 /\ d[k][2] < 2000

\* ---- numeric values of pure-number sub-expressions (needed for exponents) ----
NumSmall(v) == AbsI(v[1]) < 10000 /\ v[2] < 10000
RECURSIVE ProdNum(_)
ProdNum(xs) == IF xs = <<>> THEN ROne ELSE RMul(Head(xs).v, ProdNum(Tail(xs)))
RECURSIVE SumNum(_)
SumNum(xs) == IF xs = <<>> THEN RZero ELSE RAdd(Head(xs).v, SumNum(Tail(xs)))
AllNum(xs) == \A i \in DOMAIN xs : xs[i].hn /\ NumSmall(xs[i].v)

\* ---- linear forms  la * symbol + lb  of dimensionless operands (numbers are forms with la = 0) ----
IsLin(e) == (e.hn /\ NumSmall(e.v)) \/ (~e.hn /\ e.lt # 0 /\ NumSmall(e.la) /\ NumSmall(e.lb))
LA(e) == IF e.hn THEN RZero ELSE e.la
LB(e) == IF e.hn THEN e.v ELSE e.lb
LinIdx(xs) == {i \in DOMAIN xs : ~xs[i].hn}
LinToks(xs) == {xs[i].lt : i \in LinIdx(xs)}
\* a sum of forms in one symbol is a form; a product is one if exactly one factor is not a number
SumLin(xs) == (\A i \in DOMAIN xs : IsLin(xs[i])) /\ Cardinality(LinToks(xs)) = 1
ProdLin(xs) == (\A i \in DOMAIN xs : IsLin(xs[i])) /\ Cardinality(LinIdx(xs)) = 1
TheLin(xs) == CHOOSE s \in LinToks(xs) : TRUE
RECURSIVE SumLA(_)
SumLA(xs) == IF xs = <<>> THEN RZero ELSE RAdd(LA(Head(xs)), SumLA(Tail(xs)))
RECURSIVE SumLB(_)
SumLB(xs) == IF xs = <<>> THEN RZero ELSE RAdd(LB(Head(xs)), SumLB(Tail(xs)))
RECURSIVE ProdOthers(_)
ProdOthers(xs) == IF xs = <<>> THEN ROne
                  ELSE RMul(IF Head(xs).hn THEN Head(xs).v ELSE ROne, ProdOthers(Tail(xs)))
TheForm(xs) == xs[CHOOSE i \in LinIdx(xs) : TRUE]

-----------------------------------------------------------------------------
(* Enabledness (the property) and result of one node.                        *)

Ops == {"leaf", "mul", "add", "pow", "fn_strict", "fn_free", "fn_decl", "fn_any", "keep", "same", "deriv", "integ", "rel"}

NodeOK(tok, xs) ==
  CASE tok.op = "leaf"      -> TRUE
    [] tok.op = "mul"       -> TRUE
    [] tok.op = "add"       -> AllEquiv(xs)                          \* terms of a sum
    [] tok.op = "same"      -> AllEquiv(xs)                          \* min/max, piecewise branches, matrix rows
    [] tok.op = "rel"       -> AllEquiv(xs)                          \* both sides of = < <= ...
    [] tok.op = "pow"       -> AngleFree(xs[2])                      \* exponent dimensionless
    [] tok.op = "fn_strict" -> \A i \in DOMAIN xs : AngleFree(xs[i]) \* exp, trigonometric, hyperbolic
    [] tok.op = "fn_free"   -> TRUE
    [] tok.op = "fn_decl"   -> TRUE
    [] tok.op = "fn_any"    -> TRUE
    [] tok.op = "keep"      -> TRUE
    [] tok.op = "deriv"     -> TRUE
    [] tok.op = "integ"     -> IF Len(xs) < 4 THEN Len(xs) = 2     \* limits have the variable's dimension
                               ELSE AllEquiv(<<xs[2], xs[3]>>) /\ AllEquiv(<<xs[2], xs[4]>>)
    [] OTHER                -> FALSE

\* pow on a dimensional base needs the value of the exponent: a number, or a form  la * symbol + lb
\* on a base without a symbolic part of its own
PowDecided(xs) == \/ xs[1].a \/ xs[2].a
                  \/ (DimlessUpToAngle(xs[1].d) /\ ~HasSym(xs[1]))
                  \/ (xs[2].hn /\ NumSmall(xs[2].v))
                  \/ (IsLin(xs[2]) /\ ~HasSym(xs[1]))
\* a node whose dimension the machine cannot compute (its result is a wildcard; the trace is flagged)
Decided(tok, xs) ==
  CASE tok.op = "pow"   -> PowDecided(xs)
    [] tok.op = "mul"   -> AnyIn(xs) \/ OneSym(xs)
    [] tok.op = "integ" -> xs[1].a \/ xs[2].a \/ OneSym(<<xs[1], xs[2]>>)
    [] tok.op = "deriv" -> AnyIn(xs) \/ OneSym(xs)
    [] OTHER            -> TRUE

MulE(xs) == SymE(ProdDim(xs), TheSym(xs), ProdSym(xs))
Result(tok, xs) ==
  CASE tok.op = "leaf"      -> IF tok.lt # 0 /\ ~tok.a /\ ~tok.hn /\ tok.d = D1 THEN LinE(tok.lt, ROne, RZero)
                               ELSE Entry(tok.d, tok.a, tok.hn, tok.v)
    [] tok.op = "mul"       -> IF AnyIn(xs) \/ ~OneSym(xs) THEN AnyE
                               ELSE IF AllNum(xs) /\ NumSmall(ProdNum(xs)) THEN NumE(ProdNum(xs))
                               ELSE IF ProdLin(xs) /\ NumSmall(ProdOthers(xs))
                                    THEN LinE(TheForm(xs).lt, RMul(TheForm(xs).la, ProdOthers(xs)),
                                              RMul(TheForm(xs).lb, ProdOthers(xs)))
                               ELSE MulE(xs)
    [] tok.op = "add"       -> IF AllNum(xs) /\ NumSmall(SumNum(xs)) THEN NumE(SumNum(xs))
                               ELSE IF SumLin(xs) THEN LinE(TheLin(xs), SumLA(xs), SumLB(xs))
                               ELSE Common(xs)
    [] tok.op = "same"      -> Common(xs)
    [] tok.op = "rel"       -> AnyE
    [] tok.op = "pow"       -> IF xs[1].a THEN AnyE
                               ELSE IF DimlessUpToAngle(xs[1].d) /\ ~HasSym(xs[1]) THEN DimE(D1)
                               ELSE IF xs[2].a THEN AnyE
                               ELSE IF xs[2].hn /\ NumSmall(xs[2].v)
                                    THEN SymE(DPow(xs[1].d, xs[2].v), xs[1].st, DPow(xs[1].sd, xs[2].v))
                               ELSE IF IsLin(xs[2]) /\ ~HasSym(xs[1])
                                    THEN SymE(DPow(xs[1].d, xs[2].lb), xs[2].lt, DPow(xs[1].d, xs[2].la))
                               ELSE AnyE                                   \* undecided exponent: see PowDecided
    [] tok.op = "fn_strict" -> DimE(D1)
    [] tok.op = "fn_free"   -> DimE(D1)
    [] tok.op = "fn_decl"   -> DimE(tok.d)                  \* applied function with a declared dimension
    [] tok.op = "fn_any"    -> AnyE                         \* applied function without a declared dimension
    [] tok.op = "keep"      -> IF xs[1].a THEN AnyE ELSE SymE(xs[1].d, xs[1].st, xs[1].sd)
    [] tok.op = "deriv"     -> IF AnyIn(xs) \/ ~OneSym(xs) THEN AnyE
                               ELSE SymE(DDiv(xs[1].d, ProdDim(Tail(xs))), TheSym(xs), DDiv(xs[1].sd, ProdSym(Tail(xs))))
    [] tok.op = "integ"     -> IF xs[1].a \/ xs[2].a \/ ~OneSym(<<xs[1], xs[2]>>) THEN AnyE ELSE MulE(<<xs[1], xs[2]>>)


\* one step of the machine on an explicit stack; returns the new stack
TopN(st, n) == SubSeq(st, Len(st) - n + 1, Len(st))
PopN(st, n) == SubSeq(st, 1, Len(st) - n)
CanStep(tok, st) ==
  /\ tok.op \in Ops /\ Len(st) >= tok.n
  /\ NodeOK(tok, TopN(st, tok.n))
  /\ SmallDim(Result(tok, TopN(st, tok.n)).d)
  /\ SmallDim(Result(tok, TopN(st, tok.n)).sd)
StepStack(tok, st) == Append(PopN(st, tok.n), Result(tok, TopN(st, tok.n)))

-----------------------------------------------------------------------------
(* Stand-alone machine over a small alphabet: used to model-check the        *)
(* semantics itself (bounded, exhaustive).                                   *)
CONSTANTS MaxLen, LeafNames, OpNames
VARIABLES stack, prog
vars == <<stack, prog>>

L1 == BaseDim("L")
T1 == BaseDim("T")
A1 == BaseDim("A")
Leaf(d, a, hn, v) == [op |-> "leaf", n |-> 0, d |-> d, a |-> a, hn |-> hn, v |-> v, lt |-> 0]
Op(o, n) == [op |-> o, n |-> n, d |-> D1, a |-> FALSE, hn |-> FALSE, v |-> RZero, lt |-> 0]
LeafTok == [
  len   |-> Leaf(L1, FALSE, FALSE, RZero),
  time  |-> Leaf(T1, FALSE, FALSE, RZero),
  speed |-> Leaf(DDiv(L1, T1), FALSE, FALSE, RZero),
  angle |-> Leaf(A1, FALSE, FALSE, RZero),
  angv  |-> Leaf(DDiv(A1, T1), FALSE, FALSE, RZero),
  freq  |-> Leaf(DInv(T1), FALSE, FALSE, RZero),
  one   |-> Leaf(D1, FALSE, TRUE, ROne),
  two   |-> Leaf(D1, FALSE, TRUE, R(2)),
  half  |-> Leaf(D1, FALSE, TRUE, <<1, 2>>),
  mone  |-> Leaf(D1, FALSE, TRUE, R(-1)),
  zero  |-> Leaf(D1, TRUE, FALSE, RZero),
  wild  |-> Leaf(D1, TRUE, FALSE, RZero),
  gam   |-> [Leaf(D1, FALSE, FALSE, RZero) EXCEPT !.lt = 1],    \* dimensionless symbols (symbolic exponents)
  eta   |-> [Leaf(D1, FALSE, FALSE, RZero) EXCEPT !.lt = 2],
  ratio |-> Leaf(D1, FALSE, FALSE, RZero)          \* dimensionless, but not usable as a named exponent
]
OpTok == [
  mul2 |-> Op("mul", 2), add2 |-> Op("add", 2), add3 |-> Op("add", 3), pow |-> Op("pow", 2),
  sin  |-> Op("fn_strict", 1), log |-> Op("fn_free", 1), abs |-> Op("keep", 1),
  max2 |-> Op("same", 2), ddt |-> Op("deriv", 2), int2 |-> Op("integ", 2), eq |-> Op("rel", 2)
]

Init == stack = <<>> /\ prog = <<>>
Push(l) == /\ Len(prog) + 1 + Len(stack) <= MaxLen
           /\ stack' = StepStack(LeafTok[l], stack) /\ prog' = Append(prog, l)
Apply(o) == /\ Len(prog) + 1 + (Len(stack) - OpTok[o].n) <= MaxLen
            /\ CanStep(OpTok[o], stack)
            /\ Decided(OpTok[o], TopN(stack, OpTok[o].n))
            /\ stack' = StepStack(OpTok[o], stack) /\ prog' = Append(prog, o)
Next == (\E l \in LeafNames : Push(l)) \/ (\E o \in OpNames : Apply(o))
Spec == Init /\ [][Next]_vars

\* a weighting of the base dimensions: the degree of homogeneity under the unit
\* change  L -> 2 L, T -> 3 T (exponents of 2 and 3); angle has weight 0
Deg(d) == <<d["L"], d["T"]>>
TypeOK == \A i \in DOMAIN stack : /\ \A k \in Base : IsRat(stack[i].d[k])
                                  /\ (stack[i].a => stack[i].d = D1)
                                  /\ (stack[i].hn => stack[i].d = D1 /\ ~stack[i].a)
                                  /\ \A k \in Base : IsRat(stack[i].sd[k])
                                  /\ (HasSym(stack[i]) => ~stack[i].a /\ ~stack[i].hn /\ ~Equiv(stack[i].sd, D1))
                                  /\ (~HasSym(stack[i]) => stack[i].sd = D1)
                                  /\ (stack[i].lt # 0 => stack[i].d = D1 /\ ~stack[i].a /\ ~stack[i].hn
                                                            /\ ~HasSym(stack[i]) /\ stack[i].la # RZero)
\* accepted sums are homogeneous functions: equal degree of all non-wildcard terms (scaling covariance)
SumsHomogeneous ==
  \A n \in {2, 3} : Len(stack) >= n /\ NodeOK(Op("add", n), TopN(stack, n)) =>
     \A i, j \in NonAny(TopN(stack, n)) : /\ Deg(TopN(stack, n)[i].d) = Deg(TopN(stack, n)[j].d)
                                           /\ Deg(TopN(stack, n)[i].sd) = Deg(TopN(stack, n)[j].sd)
\* acceptance does not depend on the order of the terms
OrderFree ==
  Len(stack) >= 2 => LET a == stack[Len(stack) - 1]  b == stack[Len(stack)] IN
     /\ NodeOK(Op("add", 2), <<a, b>>) = NodeOK(Op("add", 2), <<b, a>>)
     /\ Result(Op("mul", 2), <<a, b>>) = Result(Op("mul", 2), <<b, a>>)
     /\ (NodeOK(Op("add", 2), <<a, b>>) => Equiv(Result(Op("add", 2), <<a, b>>).d, Result(Op("add", 2), <<b, a>>).d))
\* wildcards never block a node
WildcardsMatch ==
  Len(stack) >= 2 => LET a == stack[Len(stack) - 1] IN
     /\ NodeOK(Op("add", 2), <<a, AnyE>>) /\ NodeOK(Op("rel", 2), <<AnyE, a>>)
     /\ NodeOK(Op("pow", 2), <<a, AnyE>>) /\ NodeOK(Op("fn_strict", 1), <<AnyE>>)
\* angles count as dimensionless
AngleInvisible ==
  \A i \in DOMAIN stack :
     LET e == stack[i]  ea == [e EXCEPT !.d = DMul(e.d, A1), !.lt = 0] IN
       ~e.hn => /\ NodeOK(Op("add", 2), <<e, ea>>)
                /\ (NodeOK(Op("fn_strict", 1), <<e>>) = NodeOK(Op("fn_strict", 1), <<ea>>))
\* x^e1 * x^e2 and x^(e1 + e2) have the same dimension, also for symbolic exponents  la * symbol + lb
PowersAdd ==
  Len(stack) >= 3 =>
    LET b == stack[Len(stack) - 2]  e1 == stack[Len(stack) - 1]  e2 == stack[Len(stack)]
        pw == Op("pow", 2)  ml == Op("mul", 2)  ad == Op("add", 2) IN
      (/\ ~b.a /\ ~HasSym(b) /\ IsLin(e1) /\ IsLin(e2)
       /\ IsLin(Result(ad, <<e1, e2>>))) =>
         LET lhs == Result(ml, <<Result(pw, <<b, e1>>), Result(pw, <<b, e2>>)>>)
             rhs == Result(pw, <<b, Result(ad, <<e1, e2>>)>>) IN
           /\ Decided(ml, <<Result(pw, <<b, e1>>), Result(pw, <<b, e2>>)>>)
           /\ ~lhs.a /\ ~rhs.a /\ AllEquiv(<<lhs, rhs>>)
\* a symbolic power is never mistaken for a plain dimension: volume^gamma + volume is refused
SymbolicPartsCount ==
  \A i \in DOMAIN stack : HasSym(stack[i]) =>
      ~NodeOK(Op("add", 2), <<stack[i], DimE(stack[i].d)>>)
=============================================================================
