-------------------------- MODULE IntegralsTrace --------------------------
(* C13, code -> spec.  Every record is one result of the library's          *)
(* circulation / flux functions for a polynomial field and a region:        *)
(*   fn    "circ"  (circulation_along_curve, circulation_along_surface_boundary)     *)
(*         "flux2" (flux_across_curve, flux_across_surface_boundary)                 *)
(*         "flux3" (flux_across_surface over the six faces, flux_across_volume_boundary) *)
(*   comps the 0..3 Cartesian polynomial components given to the library    *)
(*         (each a list of terms << <<i,j,k>>, <<n,d>> >>)                   *)
(*   reg   [k, c, s] as in Integrals, rationals as <<n, d>>                  *)
(*   rev   1 when the parametrisation given to the library runs through the  *)
(*         region with the opposite orientation (else 0; re-timed            *)
(*         parametrisations have rev = 0: the speed must not matter)         *)
(*   num   1 when the returned expression is a number q + p*pi free of       *)
(*         coordinate and parameter symbols (then q, p hold it), else 0      *)
(* TLC recomputes the value the statement requires (Expected of Integrals)   *)
(* and rejects every record that is not that number.                         *)
EXTENDS Integrals, IOUtils

Trace == ndJsonDeserialize(IOEnv.TRACE_FILE)

VARIABLE l

RatOf(x) == Norm(x[1], x[2])
T3Of(p)  == <<RatOf(p[1]), RatOf(p[2]), RatOf(p[3])>>
RegOf(r) == Region(r.reg.k, T3Of(r.reg.c), T3Of(r.reg.s))

CompsOf(r) == [i \in 1..Len(r.comps) |-> PFromTerms(r.comps[i])]
FieldOfRec(r) == Pad(CompsOf(r))
Fits(r) == Len(r.comps) <= 3 /\ \A i \in 1..Len(r.comps) : TermsFit(r.comps[i])

Applicable(r) == /\ r.reg.k \in {"ell", "rect", "box", "tri", "tet", "shell", "ball", "hball"}
                 /\ r.fn \in Fns(RegOf(r))
                 /\ (r.fn = "flux2" => Planar(FieldOfRec(r), RegOf(r)))

Required(r) == Expected(r.fn, FieldOfRec(r), IF r.rev = 1 THEN Rev(RegOf(r)) ELSE RegOf(r))

Accepts(r) == /\ Fits(r) /\ Applicable(r)
              /\ r.num = 1
              /\ Val(RatOf(r.q), RatOf(r.p)) = Required(r)

TInit == /\ l = 1
         /\ kind = "v" /\ fld = FieldOfRec(Trace[1]) /\ terms = <<>> /\ reg = RegOf(Trace[1])
TNext == /\ l < Len(Trace)
         /\ l' = l + 1
         /\ kind' = "v" /\ fld' = FieldOfRec(Trace[l + 1]) /\ terms' = <<>> /\ reg' = RegOf(Trace[l + 1])

Validate == Accepts(Trace[l]) \/ PrintT(<<"REJECT", l>>)
AllSeen  == TLCGet("stats").diameter = Len(Trace)
=============================================================================
