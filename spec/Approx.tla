------------------------------- MODULE Approx -------------------------------
(* C08: the approximate-equality oracle of the test-suite.                   *)
(*                                                                          *)
(* Written from the statement.  Numbers are integers ("ticks", 1/1000 of an  *)
(* SI unit) so that every comparison against a relative tolerance rn/rd is   *)
(* exact integer arithmetic:  d * rd <= rn * m  <=>  d <= (rn * m) \div rd.  *)
(* An operand is [k |-> "qty" | "num", re, im |-> ticks, d |-> Dim,          *)
(* u |-> unit spelling]; a comparison is two sequences of operands (length   *)
(* one for assert_equal and approx_equal_xxx), the tolerances and the       *)
(* dimension supplied for a bare-number right-hand side.                     *)
(*                                                                          *)
(* Allowed outcomes of comparing one component, from the statement:          *)
(*  - must not pass when the dimensions are inequivalent (angle counts as    *)
(*    dimensionless; a bare number is dimensionless unless a dimension is    *)
(*    supplied for the right-hand side), or when the real or imaginary       *)
(*    parts differ by more than max(abs, rel * larger magnitude);            *)
(*  - must pass when both parts differ by no more than the stated            *)
(*    tolerance (abs if given, else rel * larger magnitude);                 *)
(*  - open in between, on the exact boundary (binary floating point cannot   *)
(*    represent it), and for the dimension of a zero operand (zero matches   *)
(*    any dimension in this library).                                        *)
(* "Larger magnitude": the statement does not say whether the magnitude of   *)
(* a complex value or of the compared part is meant; failing is required     *)
(* only beyond the larger reading, passing only within the smaller one (for  *)
(* real values both coincide and the boundary is sharp).                     *)
(* A vector comparison is a small machine: components are compared one by    *)
(* one, the first that does not pass fails the comparison, and unequal       *)
(* lengths fail it.                                                           *)
EXTENDS Dims, Sequences, TLC, Json, FiniteSets

CONSTANTS BaseMags,     \* magnitudes (ticks) of the left operand
          Rels,         \* subset of DOMAIN RelTol
          Abss,         \* subset of DOMAIN AbsTol
          Spellings,    \* unit spellings of an operand: subset of {"base", "kilo", "milli"}
          Families,     \* subset of {"boundary", "mass", "complex", "dimension", "vector"}
          TickExps,     \* decimal exponents s of the tick of the "tiny" family, written 40 + s (one tick is
                        \* 10^(s-3) SI units there: the same comparison at magnitudes 1e-13 ... 1e-30)
          MaxVec        \* vectors of 0..MaxVec components

VARIABLES case, i, verdict
vars == <<case, i, verdict>>

-----------------------------------------------------------------------------
\* "default": no relative tolerance is stated (0.1%); "r0": the relative tolerance zero is stated explicitly
RelTol == [ default |-> <<1, 1000>>, r100 |-> <<1, 100>>, rmil |-> <<1, 1000000>>, r5 |-> <<1, 20>>, r0 |-> <<0, 1>> ]
AbsTol == [ none |-> -1, a1 |-> 1000, a50 |-> 50000, a0 |-> 0 ]          \* ticks; -1: not given

Len1 == BaseDim("L")   Tim1 == BaseDim("T")
DimOf == [ len |-> Len1, time |-> Tim1, lenang |-> DMul(Len1, BaseDim("A")), one |-> D1, ang |-> BaseDim("A"),
           area |-> DPow(Len1, R(2)) ]

Floor(n, d) == n \div d                      \* n >= 0, d > 0

\* --- one real or imaginary part --------------------------------------------------------------
WithinRel(dl, m, rel)   == dl <= Floor(rel[1] * m, rel[2])                 \* dl * rd <= rn * m
\* (equal parts are never "on the boundary": a difference of zero is within every tolerance, also in floating point)
OnRelBoundary(dl, m, rel) == dl > 0 /\ (rel[1] * m) % rel[2] = 0 /\ dl = Floor(rel[1] * m, rel[2])

\* must fail: differs by more than the larger of abs and rel * (larger magnitude, generous reading mBig)
MustFailPart(l, r, mBig, rel, an) == ~WithinRel(AbsI(l - r), mBig, rel) /\ (an < 0 \/ AbsI(l - r) > an)
\* must pass: within the stated tolerance (abs if given, else rel * larger magnitude, strict reading)
MustPassPart(l, r, rel, an) ==
  IF an >= 0 THEN AbsI(l - r) <= an ELSE WithinRel(AbsI(l - r), MaxI(AbsI(l), AbsI(r)), rel)
BoundaryPart(l, r, mBig, rel, an) ==
  \/ OnRelBoundary(AbsI(l - r), mBig, rel) \/ OnRelBoundary(AbsI(l - r), MaxI(AbsI(l), AbsI(r)), rel)
  \/ (an >= 0 /\ l # r /\ AbsI(l - r) = an)

\* --- one component ------------------------------------------------------------------------------
IsZero(a) == a.re = 0 /\ a.im = 0
\* dimarg: [given |-> BOOLEAN, d |-> Dim], the dimension supplied for a bare number on the right-hand side
NoDim == [given |-> FALSE, d |-> D1]
Given(d) == [given |-> TRUE, d |-> d]
OpDim(a, dimarg, isRight) ==
  IF a.k = "num" THEN (IF isRight /\ dimarg.given THEN dimarg.d ELSE D1) ELSE a.d
DimsOK(a, b, dimarg) == Equiv(OpDim(a, dimarg, FALSE), OpDim(b, dimarg, TRUE))
MBig(a, b) == MaxI(AbsI(a.re) + AbsI(a.im), AbsI(b.re) + AbsI(b.im))

ValuesMustFail(a, b, rel, an) ==
  MustFailPart(a.re, b.re, MBig(a, b), rel, an) \/ MustFailPart(a.im, b.im, MBig(a, b), rel, an)
ValuesMustPass(a, b, rel, an) == MustPassPart(a.re, b.re, rel, an) /\ MustPassPart(a.im, b.im, rel, an)
OnBoundary(a, b, rel, an) ==
  BoundaryPart(a.re, b.re, MBig(a, b), rel, an) \/ BoundaryPart(a.im, b.im, MBig(a, b), rel, an)

Both == {"pass", "notpass"}
\* a bare number compared under a supplied dimension: the statement does not say in which unit the number is
\* meant; the SI unit is assumed here, which is unambiguous except for the kilogram (SymPy's unit system counts
\* mass in grams): with a mass exponent the value comparison is left open
UnitOfBareNumberOpen(b, dimarg) == b.k = "num" /\ dimarg.given /\ dimarg.d["M"] # RZero
\* a dimension supplied although the right-hand side is a quantity of another dimension: the operands'
\* dimensions decide (inequivalent operands never pass, whatever is supplied); if the operands agree with
\* each other but not with the supplied dimension the statement does not say what happens
SuppliedDimensionConflicts(b, dimarg) == b.k = "qty" /\ dimarg.given /\ ~Equiv(dimarg.d, b.d)
CompAllowed(a, b, rel, an, dimarg) ==
  IF ~DimsOK(a, b, dimarg) /\ ~IsZero(a) /\ ~IsZero(b) THEN {"notpass"}
  ELSE IF UnitOfBareNumberOpen(b, dimarg) \/ SuppliedDimensionConflicts(b, dimarg) THEN Both
  ELSE IF OnBoundary(a, b, rel, an) THEN Both
  ELSE IF ValuesMustFail(a, b, rel, an) THEN {"notpass"}
  ELSE IF ~DimsOK(a, b, dimarg) THEN Both              \* a zero operand of another dimension
  ELSE IF ValuesMustPass(a, b, rel, an) THEN {"pass"}
  ELSE Both

\* all outcomes of a whole comparison, defined without the machine
Allowed(c) ==
  LET n == MinI(Len(c.l), Len(c.r))
      A(j) == CompAllowed(c.l[j], c.r[j], c.rel, c.an, c.dimarg)
  IN  (IF Len(c.l) = Len(c.r) /\ \A j \in 1..n : "pass" \in A(j) THEN {"pass"} ELSE {})
      \cup (IF Len(c.l) # Len(c.r) \/ \E j \in 1..n : "notpass" \in A(j) THEN {"notpass"} ELSE {})

-----------------------------------------------------------------------------
(* The generated comparisons.                                                *)
Op(k, re, im, d, u) == [k |-> k, re |-> re, im |-> im, d |-> d, u |-> u]
\* s10: the decimal exponent of the scale the integers of this comparison are counted in (values and the absolute
\* tolerance alike).  The verdict is about ratios and differences of these integers only: it does not depend on it.
Cmp(fam, l, r, rel, an, dimarg) ==
  [fam |-> fam, l |-> l, r |-> r, rel |-> RelTol[rel], reln |-> rel, an |-> AbsTol[an], ann |-> an, dimarg |-> dimarg,
   s10 |-> 0]

T(b, rel) == Floor(RelTol[rel][1] * b, RelTol[rel][2])             \* the tolerance at magnitude b, rounded down
Deltas(b, rel, an) ==
  LET t == T(b, rel) IN
    {x \in {0, t - 1, t, t + 1, t + 2, 2 * t + 2} \cup
           (IF AbsTol[an] >= 0 THEN {AbsTol[an] - 1, AbsTol[an], AbsTol[an] + 1, 2 * AbsTol[an] + 2} ELSE {}) : x >= 0}
Signed(x) == {x, -x}
SpellPairs == {<<"base", "base">>} \cup {<<s, "base">> : s \in Spellings} \cup {<<"base", s>> : s \in Spellings}

\* The families of comparisons are initial-state predicates (TLC enumerates them without building the set).

\* values straddling the tolerance, real operands of the same dimension, written in different units, both orders
InitBoundary ==
  \E b \in BaseMags, rel \in Rels, an \in Abss, s \in {1, -1}, sp \in SpellPairs, swap \in BOOLEAN :
    \E x \in UNION {Signed(y) : y \in Deltas(b, rel, an)} :
      LET p == <<Op("qty", s * b, 0, Len1, sp[1])>>   q == <<Op("qty", s * (b + x), 0, Len1, sp[2])>>
      IN  case = IF swap THEN Cmp("boundary", [q EXCEPT ![1].u = sp[1]], [p EXCEPT ![1].u = sp[2]], rel, an, NoDim)
                 ELSE Cmp("boundary", p, q, rel, an, NoDim)

\* the same straddling values at tiny magnitudes (a tick of 10^(s-3) SI units), bare numbers included
InitTiny ==
  \E b \in {m \in BaseMags : m <= 1000000}, rel \in Rels, an \in Abss, sgn \in {1, -1}, swap \in BOOLEAN, s \in TickExps,
     k \in {"qty", "num"} :
    \E x \in UNION {Signed(y) : y \in Deltas(b, rel, an)} :
      LET d == IF k = "qty" THEN Len1 ELSE D1
          p == <<Op(k, sgn * b, 0, d, "base")>>   q == <<Op(k, sgn * (b + x), 0, d, "base")>>
          c == IF swap THEN Cmp("tiny", q, p, rel, an, NoDim) ELSE Cmp("tiny", p, q, rel, an, NoDim)
      IN  case = [c EXCEPT !.s10 = s - 40]

\* the same straddling values for dimensions with a mass exponent (the SI unit of mass is the kilogram)
Mas1 == BaseDim("M")
InitMass ==
  \E b \in {m \in BaseMags : m > 0 /\ m <= 1000000}, rel \in Rels, an \in Abss, swap \in BOOLEAN,
     d \in {Mas1, DInv(Mas1), DMul(Mas1, DPow(Len1, R(2)))} :
    \E x \in UNION {Signed(y) : y \in Deltas(b, rel, an)} :
      LET p == <<Op("qty", b, 0, d, "base")>>   q == <<Op("qty", b + x, 0, d, "base")>>
      IN  case = IF swap THEN Cmp("mass", q, p, rel, an, NoDim) ELSE Cmp("mass", p, q, rel, an, NoDim)

\* real and imaginary parts off by independent amounts
Off(b, rel) == {0, T(b, rel), T(b, rel) + 2, 3 * T(b, rel) + 3}
InitComplex ==
  \E b \in {m \in BaseMags : m > 0 /\ m <= 1000000}, rel \in Rels, an \in Abss, ib \in {0, 1, 3} :
    \E x \in Off(b, rel), y \in Off(b, rel) :
      case = Cmp("complex", <<Op("qty", b, ib * b, Len1, "base")>>, <<Op("qty", b + x, ib * b + y, Len1, "base")>>, rel, an, NoDim)

\* dimensions: equivalent, equivalent up to angle, inequivalent; bare numbers with and without a supplied
\* dimension; zero operands
DimKinds == {<<"qty", Len1>>, <<"qty", Tim1>>, <<"qty", BaseDim("M")>>, <<"qty", DimOf["lenang"]>>, <<"qty", D1>>, <<"qty", DimOf["ang"]>>, <<"num", D1>>}
InitDimension ==
  \E a \in DimKinds, b \in DimKinds, da \in {NoDim, Given(Len1), Given(Tim1), Given(BaseDim("M"))}, l \in {0, 1000000}, r \in {0, 1000000, 1000500, 1100000} :
    \* (the dimension is also supplied when both operands are quantities: it must not replace their comparison)
    /\ case = Cmp("dimension", <<Op(a[1], l, 0, a[2], "base")>>, <<Op(b[1], r, 0, b[2], "base")>>, "default", "none", da)

\* vectors: components equal / within / outside the tolerance, lengths 0..MaxVec on both sides
VecComp == {1000000, 1000500, 1100000}
Vecs(d) == UNION {{[j \in 1..n |-> Op("qty", f[j], 0, d, "base")] : f \in [1..n -> VecComp]} : n \in 0..MaxVec}
InitVector ==
  \E l \in Vecs(Len1), r \in Vecs(Len1) \cup {v \in Vecs(Tim1) : Len(v) = 2}, da \in {NoDim, Given(Len1), Given(Tim1)} :
    /\ (da.given => Len(l) <= 2 /\ Len(r) <= 2)
    /\ case = Cmp("vector", l, r, "default", "none", da)

\* vectors whose components have disparate magnitudes: each component is compared within the tolerance of ITS OWN
\* larger magnitude - one large, equal component next to a small component that is equal / within / outside
SmallPairs == {<<1000, 1000>>, <<1000, 1001>>, <<1000, 1500>>, <<0, 0>>, <<0, 1>>, <<2000, 1000>>}
InitVecMix ==
  \E n \in 2..MaxVec, pos \in 1..MaxVec, big \in {m \in BaseMags : m >= 1000000}, sp \in SmallPairs, rel \in Rels :
    /\ pos <= n
    /\ LET mk(small) == [j \in 1..n |-> Op("qty", IF j = pos THEN small ELSE big, 0, Len1, "base")]
       IN  case = Cmp("vecmix", mk(sp[1]), mk(sp[2]), rel, "none", NoDim)

-----------------------------------------------------------------------------
(* The comparison machine.                                                   *)
Init == /\ \/ ("boundary" \in Families /\ InitBoundary)
           \/ ("tiny" \in Families /\ InitTiny)
           \/ ("mass" \in Families /\ InitMass)
           \/ ("complex" \in Families /\ InitComplex)
           \/ ("dimension" \in Families /\ InitDimension)
           \/ ("vector" \in Families /\ InitVector)
           \/ ("vecmix" \in Families /\ InitVecMix)
        /\ i = 1 /\ verdict = "running"

Compare(v) ==
  /\ verdict = "running" /\ i <= MinI(Len(case.l), Len(case.r))
  /\ v \in CompAllowed(case.l[i], case.r[i], case.rel, case.an, case.dimarg)
  /\ IF v = "pass" THEN i' = i + 1 /\ UNCHANGED verdict ELSE verdict' = "notpass" /\ UNCHANGED i
  /\ UNCHANGED case

Finish ==
  /\ verdict = "running" /\ i > MinI(Len(case.l), Len(case.r))
  /\ verdict' = IF Len(case.l) = Len(case.r) THEN "pass" ELSE "notpass"      \* unequal lengths never pass
  /\ UNCHANGED <<case, i>>

Next == (\E v \in Both : Compare(v)) \/ Finish
Spec == Init /\ [][Next]_vars
Terminal == verdict # "running"

-----------------------------------------------------------------------------
(* Properties of the model.                                                  *)
TypeOK == verdict \in {"running", "pass", "notpass"} /\ i \in 1..(MaxVec + 2)

AtStart == i = 1 /\ verdict = "running"
Comps == 1..MinI(Len(case.l), Len(case.r))
CA(a, b) == CompAllowed(a, b, case.rel, case.an, case.dimarg)

\* the regions in which the statement prescribes the verdict never overlap, and a verdict always exists
Disjoint == AtStart => \A j \in Comps :
              /\ ~(ValuesMustFail(case.l[j], case.r[j], case.rel, case.an) /\ ValuesMustPass(case.l[j], case.r[j], case.rel, case.an))
              /\ CA(case.l[j], case.r[j]) # {}
\* without an absolute tolerance (and without a one-sided dimension argument) the verdict is symmetric
SymmetricWithoutAbs == AtStart /\ case.an < 0 /\ ~case.dimarg.given =>
                         \A j \in Comps : CA(case.l[j], case.r[j]) = CA(case.r[j], case.l[j])
\* the verdict never depends on the units the operands are written in
UnitIndependent == AtStart => \A j \in Comps, s1 \in Spellings \cup {"base"}, s2 \in Spellings \cup {"base"} :
                     CA([case.l[j] EXCEPT !.u = s1], [case.r[j] EXCEPT !.u = s2]) = CA(case.l[j], case.r[j])
\* nor on the scale the values are counted in
ScaleIndependent == AtStart => Allowed([case EXCEPT !.s10 = 0]) = Allowed(case)
\* inequivalent dimensions of two non-zero operands never pass; an angle factor never matters
DimensionGuard == AtStart => \A j \in Comps :
                    LET a == case.l[j]  b == case.r[j] IN
                      /\ (~DimsOK(a, b, case.dimarg) /\ ~IsZero(a) /\ ~IsZero(b) => CA(a, b) = {"notpass"})
                      /\ CA([a EXCEPT !.d = Erase(a.d)], [b EXCEPT !.d = Erase(b.d)]) = CA(a, b)
\* a larger difference never turns a required failure into a required pass (real operands)
Monotone == AtStart => \A j \in Comps :
              LET a == case.l[j]  b == case.r[j] IN
                (a.im = 0 /\ b.im = 0 /\ ValuesMustFail(a, b, case.rel, case.an) /\ b.re >= a.re /\ a.re >= 0) =>
                   ValuesMustFail(a, [b EXCEPT !.re = @ + 1], case.rel, case.an)
\* for real operands of equivalent dimension and no absolute tolerance nothing is left open off the boundary
SharpForReals == AtStart /\ case.an < 0 => \A j \in Comps :
                   LET a == case.l[j]  b == case.r[j] IN
                     (a.im = 0 /\ b.im = 0 /\ DimsOK(a, b, case.dimarg) /\ ~OnBoundary(a, b, case.rel, case.an)
                        /\ ~UnitOfBareNumberOpen(b, case.dimarg) /\ ~SuppliedDimensionConflicts(b, case.dimarg))
                        => Cardinality(CA(a, b)) = 1
\* the machine and the closed form agree; a pass needs equal lengths and every component passing
FinalIsAllowed == Terminal => verdict \in Allowed(case)
PassNeedsAll == verdict = "pass" => Len(case.l) = Len(case.r) /\ \A j \in Comps : "pass" \in CA(case.l[j], case.r[j])

-----------------------------------------------------------------------------
DimSeq(d) == <<d["L"], d["M"], d["T"], d["I"], d["K"], d["N"], d["J"], d["A"]>>
OpJ(a) == [k |-> a.k, re |-> a.re, im |-> a.im, d |-> DimSeq(a.d), u |-> a.u]
CaseJ == [fam |-> case.fam, l |-> [j \in DOMAIN case.l |-> OpJ(case.l[j])], r |-> [j \in DOMAIN case.r |-> OpJ(case.r[j])],
          rel |-> case.reln, an |-> case.ann, s10 |-> case.s10,
          dimarg |-> IF case.dimarg.given THEN DimSeq(case.dimarg.d) ELSE <<>>]
Emit == Terminal => PrintT(ToJson([case |-> CaseJ, verdict |-> verdict]))
=============================================================================
