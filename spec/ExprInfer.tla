----------------------------- MODULE ExprInfer -----------------------------
(* C06: symbolic dimension inference over dimensioned symbols, functions,    *)
(* quantities and numbers, and its agreement with evaluation on quantities.  *)
(*                                                                          *)
(* Two stacks run in lock step over the same postfix program:                *)
(*   stack   - the meaning C06 assigns to symbolic inference                 *)
(*             (dimension from the declared dimensions of the leaves,        *)
(*              value under a fixed rational assignment of the symbols,      *)
(*              refusal exactly for incompatible sums/min/max and            *)
(*              dimensional exponents; function arguments are NOT checked);  *)
(*   qstack  - the meaning C05 assigns to Quantity construction of the same  *)
(*             program after every symbol / applied function / derivative    *)
(*             has been replaced by a non-zero quantity of its declared      *)
(*             dimension (function arguments must be dimensionless).         *)
(* The last sentence of C06 is the invariant CommutingDiagram between them.  *)
(* Each entry carries s = TRUE iff the sub-expression contains a symbol      *)
(* (then its value is only known under the assignment, not identically).     *)
EXTENDS ExprSem, TLC, Json

CONSTANTS MaxLen, LeafNames, OpNames

VARIABLES stack, qstack, flags, fdim, ao, prog
\* flags : sequence parallel to stack of [s, q, e, lf]:
\*           s  - the sub-expression contains a symbol (value known only under the assignment)
\*           q  - it contains a quantity leaf
\*           e  - if its value is zero/infinite/NaN this is syntactically evident (a literal number or
\*                a zero/infinite-valued quantity leaf); inference is syntactic, and the statement's
\*                "zero, infinite and NaN terms excepted" is only decided for those
\*           lf - it is a leaf
\* fdim  : TRUE once some function node received a dimensional (non-any) argument
\* ao    : TRUE once a power had an exponent whose dimension is a pure ANGLE: the statement does not say whether
\*         that exponent "is dimensional" (C01 counts angles as dimensionless, the collectors do not), so the
\*         verdict of inference is left open there; what the statement does fix is its last sentence: IF
\*         inference succeeds, construction on quantities must succeed too (checked by the harness)
vars == <<stack, qstack, flags, fdim, ao, prog>>

Speed == LMT(ROne, RZero, R(-1), RZero)
Accel == LMT(ROne, RZero, R(-2), RZero)

\* value, symbolic?, quantity?
Leaf(val, sym) == [val |-> val, sym |-> sym]
QuantityLeaves == {"m", "km", "s", "kg", "q2m", "q0", "q0m", "qoos", "q2", "qang"}
LeafDef == [
  n0    |-> Leaf(Zero, FALSE),
  n1    |-> Leaf(Fin(R(1), D1), FALSE),
  n2    |-> Leaf(Fin(R(2), D1), FALSE),
  n3    |-> Leaf(Fin(R(3), D1), FALSE),
  nm1   |-> Leaf(Fin(R(-1), D1), FALSE),
  nh    |-> Leaf(Fin(<<1, 2>>, D1), FALSE),
  oo    |-> Leaf(Inf, FALSE),
  nan   |-> Leaf(NaN, FALSE),
  m     |-> Leaf(Fin(R(1), L1), FALSE),
  km    |-> Leaf(Fin(R(1000), L1), FALSE),
  s     |-> Leaf(Fin(R(1), T1), FALSE),
  kg    |-> Leaf(Fin(R(1), M1), FALSE),
  q2m   |-> Leaf(Fin(R(2), L1), FALSE),
  q0    |-> Leaf(Zero, FALSE),                    \* Quantity(0)
  q0m   |-> Leaf(Zero, FALSE),                    \* Quantity(0, dimension=length): zero-valued, any
  qoos  |-> Leaf(Inf, FALSE),                     \* Quantity(oo, dimension=time)
  q2    |-> Leaf(Fin(R(2), D1), FALSE),           \* Quantity(2): dimensionless, usable as an exponent
  \* dimensioned symbols, value = the assignment used for value-equality
  xs    |-> Leaf(Fin(R(3), L1), TRUE),            \* Symbol("x", length)
  ys    |-> Leaf(Fin(R(5), L1), TRUE),            \* Symbol("y", length)
  ts    |-> Leaf(Fin(R(7), T1), TRUE),            \* Symbol("t", time)
  ks    |-> Leaf(Fin(R(2), D1), TRUE),            \* Symbol("k", dimensionless)
  phis  |-> Leaf(Fin(R(2), Angle), TRUE),         \* Symbol("phi", angle_type)
  qang  |-> Leaf(Fin(R(2), Angle), FALSE),        \* Quantity(2, dimension=angle_type)
  ps    |-> Leaf(Fin(R(4), D1), TRUE),            \* plain sympy Symbol("p") (no declared dimension)
  ft    |-> Leaf(Fin(R(11), L1), TRUE),           \* Function("f", [t], length) applied to t
  dft   |-> Leaf(Fin(R(13), Speed), TRUE),        \* Derivative(f(t), t)          : length / time
  d2ft  |-> Leaf(Fin(R(-2), Accel), TRUE),        \* Derivative(f(t), (t, 2))     : length / time^2
  dgxt  |-> Leaf(Fin(R(3), LMT(RZero, ROne, R(-1), RZero)), TRUE), \* Derivative(g(x, t), x, t), g: mass*length -> M/T
  fdx   |-> Leaf(Fin(R(23), L1), TRUE),           \* FiniteDifference(x): a wrapper leaf that carries the inferred
                                                  \*   dimension of its argument (length) as its declared one
  dLq   |-> Leaf(Fin(R(19), DDiv(Energy, L1)), TRUE)               \* Derivative(L(f(t), t), f(t)): energy / length
                                                                   \*   (the variable is an APPLIED function)
]

\* dimension of a derivative from the declared dimensions (what the property states)
DerivDim(fd, vars_) == DDiv(fd, vars_)
DerivLemma ==
  /\ LeafDef.dft.val.d  = DerivDim(L1, T1)
  /\ LeafDef.d2ft.val.d = DerivDim(L1, DPow(T1, R(2)))
  /\ LeafDef.dgxt.val.d = DerivDim(DMul(M1, L1), DMul(L1, T1))
  /\ LeafDef.dLq.val.d  = DerivDim(Energy, L1)

AllOps == {"mul2", "mul3", "add2", "add3", "pow", "abs", "min2", "max2", "exp", "gapp"}
\* "gapp": G(x) for a function G declared with the dimension of an energy, applied to ANY sub-expression:
\* its dimension is the declared one whatever the argument is, but an error inside the argument is an error
Arity(o) == CASE o \in {"mul2", "add2", "pow", "min2", "max2"} -> 2
              [] o \in {"mul3", "add3"} -> 3
              [] OTHER -> 1

\* inference does not look at function arguments' dimensions
InferFunc(a) ==
  CASE a.c = "err" -> Err
    [] a.c = "zero" -> Fin(ROne, D1)
    [] a.c = "inf"  -> Inf
    [] a.c = "ninf" -> Zero
    [] a.c = "nan"  -> NaN
    [] OTHER -> Irr(1, D1)

Top(st, k) == st[Len(st) - k]
Pop(st, n) == SubSeq(st, 1, Len(st) - n)
TopN(st, n) == SubSeq(st, Len(st) - n + 1, Len(st))

Sem(o, xs, infer) ==
  CASE o = "mul2" -> Mul2(xs[1], xs[2])
    [] o = "mul3" -> Mul2(Mul2(xs[1], xs[2]), xs[3])
    [] o \in {"add2", "add3"} -> AddN(xs)
    [] o = "pow"  -> PowSem(xs[1], xs[2])
    [] o = "abs"  -> AbsSem(xs[1])
    [] o = "min2" -> MinMax(TRUE, xs[1], xs[2])
    [] o = "max2" -> MinMax(FALSE, xs[1], xs[2])
    [] o = "exp"  -> IF infer THEN InferFunc(xs[1]) ELSE FuncSem(xs[1])
    [] o = "gapp" -> IF xs[1].c = "err" THEN Err ELSE Fin(R(17), Energy)

\* an exponent that is a non-zero finite value of pure angle dimension
AngleExponent(e) == e.c = "fin" /\ HasAngle(e) /\ DimlessUpToAngle(e.d)

Defined(o, xs) ==
  CASE o = "mul2" -> Mul2Defined(xs[1], xs[2])
    [] o = "mul3" -> /\ Mul2Defined(xs[1], xs[2]) /\ Mul2Defined(Mul2(xs[1], xs[2]), xs[3])
                     /\ Mul2Defined(xs[2], xs[3]) /\ Mul2Defined(xs[1], Mul2(xs[2], xs[3]))
    [] o \in {"add2", "add3"} -> AddDefined(xs)
    [] o = "pow"  -> PowDefined(xs[1], xs[2]) \/ (AngleExponent(xs[2]) /\ xs[1].c \in {"fin", "err"})
    [] o = "abs"  -> TRUE
    [] o \in {"min2", "max2"} -> MinMaxDefined(xs[1], xs[2])
    [] o = "exp"  -> ~HasAngle(xs[1]) /\ xs[1].c # "irr"
                     /\ (xs[1].c = "fin" => AbsI(xs[1].v[1]) <= 20 * xs[1].v[2])
    [] o = "gapp" -> TRUE

(* What the value of a sub-expression containing symbols is only known under *)
(* the assignment.  A result that is zero/infinite/NaN under the assignment  *)
(* is identically so only if it comes from a literal (non-symbolic) zero     *)
(* factor; otherwise "any-ness" is not decided and the action is disabled.   *)
SymbolicOK(o, xs, fl, res) ==
  LET anysym == \E i \in DOMAIN xs : fl[i].s IN
  \/ ~anysym
  \/ /\ res.c \in {"fin", "irr", "err"}
     /\ \A i \in DOMAIN xs : fl[i].s \/ xs[i].c \in {"fin", "irr", "zero", "err"}   \* no oo/nan next to symbols
     /\ (o = "pow" => ~fl[2].s /\ xs[2].c # "zero")            \* symbolic exponents, symbol ** 0: not decided
     /\ (o \in {"min2", "max2"} => \A i \in DOMAIN xs : xs[i].c # "zero")
  \/ /\ o \in {"mul2", "mul3"} /\ res.c = "zero"
     /\ \E i \in DOMAIN xs : ~fl[i].s /\ xs[i].c = "zero"
     /\ \A i \in DOMAIN xs : xs[i].c \in {"fin", "irr", "zero"}

(* Inference is syntactic: the decided fragment keeps computed (non-evident) *)
(* zero/infinite/NaN values out of the positions where any-ness matters, and *)
(* quantities out of exponents except as a direct non-zero leaf.             *)
EvidentOK(o, xs, fl) ==
  /\ (o \in {"add2", "add3", "min2", "max2", "mul2", "mul3"} => \A i \in DOMAIN xs : IsAny(xs[i]) => fl[i].e)
  \* a product with an infinite factor is only decided next to leaves, and one with a zero/NaN factor not next
  \* to composite pure-number factors (SymPy multiplies unevaluated numeric nodes with its own quirks; the
  \* collector returns the infinite literal without looking at the sign of composite factors)
  /\ (o \in {"mul2", "mul3"} =>
        /\ ((\E i \in DOMAIN xs : xs[i].c \in {"inf", "ninf"}) => \A j \in DOMAIN xs : fl[j].lf)
        /\ ((\E i \in DOMAIN xs : IsAny(xs[i])) => \A j \in DOMAIN xs : fl[j].lf \/ fl[j].s \/ fl[j].q))
  \* Min/Max of a quantity expression and a pure number of the other sign is evaluated by SymPy itself
  \* (quantities are positive symbols), before inference sees the node
  /\ (o \in {"min2", "max2"} => \A i, j \in DOMAIN xs :
        ~(fl[i].q /\ ~fl[i].s /\ ~fl[j].q /\ ~fl[j].s /\ xs[i].c \in {"fin", "zero"} /\ xs[j].c \in {"fin", "zero"}
          /\ RSign(xs[i].v) # RSign(xs[j].v)))
  \* a refused sub-expression times a LITERAL zero (or to the power zero) evaluates to a plain number for SymPy, so an
  \* ENCLOSING node never looks inside (flag nz); a symbolic factor times its own inverse likewise
  /\ (\A i \in DOMAIN xs : ~(xs[i].c = "err" /\ fl[i].nz))
  /\ (o = "mul2" => ~(fl[1].s /\ fl[2].s /\ xs[1].c = "fin" /\ xs[2].c = "fin" /\ RMul(xs[1].v, xs[2].v) = ROne))
  /\ (o = "pow" => /\ (IsAny(xs[2]) => fl[2].e)
                   /\ (IsAny(xs[1]) => ~fl[2].q)          \* 0 ** quantity, nan ** quantity: SymPy itself collapses it
                   /\ (fl[2].q => ~(xs[1].c = "fin" /\ RAbs(xs[1].v) = ROne /\ ~fl[1].s))   \* so is 1 ** quantity
                   /\ (fl[2].q => (fl[2].lf /\ ~IsAny(xs[2])) \/ PowRefused(xs[1], xs[2])))

ResultFlags(o, xs, fl, res) ==
  [s  |-> (o = "gapp") \/ (\E i \in DOMAIN fl : fl[i].s),
   q  |-> \E i \in DOMAIN fl : fl[i].q,
   e  |-> ~IsAny(res),      \* only literal leaves are evidently zero / infinite / NaN
   lf |-> FALSE,
   \* nz: SymPy can evaluate the node to a plain number although it contains a refused sub-expression
   \*     (a literal zero factor, a literal zero exponent): an ENCLOSING node then treats it as a number and
   \*     never looks inside
   nz |-> \/ (o \in {"mul2", "mul3"} /\ \E i \in DOMAIN xs : xs[i].c = "zero" /\ ~fl[i].q /\ ~fl[i].s)
          \/ (o = "pow" /\ xs[2].c = "zero" /\ ~fl[2].q /\ ~fl[2].s)
          \/ (\A i \in DOMAIN fl : fl[i].nz \/ (~fl[i].q /\ ~fl[i].s))]

Init == stack = <<>> /\ qstack = <<>> /\ flags = <<>> /\ fdim = FALSE /\ ao = FALSE /\ prog = <<>>

Push(l) ==
  /\ Len(prog) + 1 + Len(stack) <= MaxLen
  /\ stack'  = Append(stack, LeafDef[l].val)
  /\ qstack' = Append(qstack, LeafDef[l].val)
  /\ flags'  = Append(flags, [s |-> LeafDef[l].sym, q |-> l \in QuantityLeaves, e |-> TRUE, lf |-> TRUE, nz |-> FALSE])
  /\ prog'   = Append(prog, l)
  /\ UNCHANGED <<fdim, ao>>

Apply(o) ==
  LET n == Arity(o) IN
  /\ Len(stack) >= n
  /\ Len(prog) + 1 + (Len(stack) - n) <= MaxLen
  /\ LET xs == TopN(stack, n)  qs == TopN(qstack, n)  fl == TopN(flags, n) IN
     /\ Defined(o, xs) /\ Defined(o, qs)
     /\ SymbolicOK(o, xs, fl, Sem(o, xs, TRUE))
     /\ EvidentOK(o, xs, fl)
     /\ stack'  = Append(Pop(stack, n), Sem(o, xs, TRUE))
     /\ qstack' = Append(Pop(qstack, n), Sem(o, qs, FALSE))
     /\ flags'  = Append(Pop(flags, n), ResultFlags(o, xs, fl, Sem(o, xs, TRUE)))
     /\ fdim'   = (fdim \/ o = "gapp" \/ (o = "exp" /\ qs[1].c \in {"fin", "irr"} /\ ~Dimless(qs[1].d)))
     /\ ao'     = (ao \/ (o = "pow" /\ AngleExponent(xs[2])))
  /\ prog' = Append(prog, o)

Next == (\E l \in LeafNames : Push(l)) \/ (\E o \in OpNames : Apply(o))
Spec == Init /\ [][Next]_vars

-----------------------------------------------------------------------------
WellFormed(x) ==
  /\ x.c \in Classes /\ IsRat(x.v) /\ Small(x.v)
  /\ (x.c = "fin" => x.v # RZero)
  /\ (x.c \in AnyCls \cup {"err"} => x.d = D1 /\ x.v = RZero)

TypeOK == /\ Len(stack) = Len(qstack) /\ Len(stack) = Len(flags)
          /\ \A i \in DOMAIN stack : WellFormed(stack[i]) /\ WellFormed(qstack[i])

(* The last sentence of C06: whenever inference succeeds and every function  *)
(* argument was dimensionless, the quantity built after substitution is      *)
(* accepted, has the same value class and value, and the same dimension.     *)
CommutingDiagram ==
  \A i \in DOMAIN stack :
     (stack[i].c # "err" /\ ~fdim) => qstack[i] = stack[i]

\* conversely inference refuses only what construction refuses
InferRefusesLess == \A i \in DOMAIN stack : stack[i].c = "err" => qstack[i].c = "err"

ASSUME DerivLemma

DimSeq(d) == <<d["L"], d["M"], d["T"], d["I"], d["K"], d["N"], d["J"], d["A"]>>
Done == Len(stack) = 1 /\ Len(prog) >= 1
Emit == Done => PrintT(ToJson([p |-> prog, c |-> stack[1].c, v |-> stack[1].v, d |-> DimSeq(stack[1].d),
                               s |-> flags[1].s, q |-> qstack[1].c, f |-> fdim, ao |-> ao]))
=============================================================================
