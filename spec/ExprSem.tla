------------------------------ MODULE ExprSem ------------------------------
(* Meaning of arithmetic expression nodes over dimensioned values, written   *)
(* from the statements of C05 / C06 (shared by QuantityCollect and           *)
(* ExprInfer).  A value is [c |-> class, v |-> exact value, d |-> dimension] *)
(* classes: "zero" "fin" (non-zero rational v) "inf" "ninf" "nan"            *)
(*          "irr" (finite, non-zero, irrational; v holds the sign 1/-1/0=?)  *)
(*          "err" (must be refused)                                          *)
(* zero/inf/ninf/nan are "any": compatible with every dimension; their own   *)
(* dimension is normalised to D1 and never compared.                         *)
EXTENDS Dims, Sequences, FiniteSets

AnyCls == {"zero", "inf", "ninf", "nan"}
Classes == AnyCls \cup {"fin", "irr", "err"}

Zero   == [c |-> "zero", v |-> RZero, d |-> D1]
Inf    == [c |-> "inf",  v |-> RZero, d |-> D1]
NInf   == [c |-> "ninf", v |-> RZero, d |-> D1]
NaN    == [c |-> "nan",  v |-> RZero, d |-> D1]
Err    == [c |-> "err",  v |-> RZero, d |-> D1]
Fin(v, d) == IF v = RZero THEN Zero ELSE [c |-> "fin", v |-> v, d |-> d]
Irr(sign, d) == [c |-> "irr", v |-> R(sign), d |-> d]

IsAny(x) == x.c \in AnyCls

L1 == BaseDim("L")
T1 == BaseDim("T")
M1 == BaseDim("M")
Force  == LMT(ROne, ROne, R(-2), RZero)
Energy == LMT(R(2), ROne, R(-2), RZero)
Angle  == BaseDim("A")

-----------------------------------------------------------------------------
(* Semantics of the node kinds, from the statement.                         *)

HasAngle(x) == x.d["A"] # RZero

\* ---- product -------------------------------------------------------------
SignOf(x) == CASE x.c = "fin" -> RSign(x.v) [] x.c = "irr" -> x.v[1]
               [] x.c = "inf" -> 1 [] x.c = "ninf" -> -1 [] OTHER -> 0

Mul2Defined(a, b) ==
  /\ ~(a.c = "irr" /\ b.c = "irr")                                  \* could cancel: not decided
  /\ ~(a.c = "irr" /\ b.c \in {"inf", "ninf"} /\ a.v[1] = 0)
  /\ ~(b.c = "irr" /\ a.c \in {"inf", "ninf"} /\ b.v[1] = 0)
  /\ (a.c = "fin" /\ b.c = "fin" => Small(RMul(a.v, b.v)))          \* operands are Small: no overflow
  /\ DimSmall(a.d) /\ DimSmall(b.d)

Mul2(a, b) ==
  IF a.c = "err" \/ b.c = "err" THEN Err
  ELSE IF a.c = "nan" \/ b.c = "nan" THEN NaN
  ELSE IF a.c = "zero" \/ b.c = "zero"
       THEN (IF a.c \in {"inf", "ninf"} \/ b.c \in {"inf", "ninf"} THEN NaN ELSE Zero)
  ELSE IF a.c \in {"inf", "ninf"} \/ b.c \in {"inf", "ninf"}
       THEN (IF SignOf(a) * SignOf(b) > 0 THEN Inf ELSE NInf)
  ELSE IF a.c = "irr" \/ b.c = "irr" THEN Irr(SignOf(a) * SignOf(b), DMul(a.d, b.d))
  ELSE Fin(RMul(a.v, b.v), DMul(a.d, b.d))

\* ---- sum ------------------------------------------------------------------
\* a sum/min/max is refused iff two of its terms that are not "any" have
\* different dimensions
Compatible(xs) == \A i, j \in DOMAIN xs :
                     (~IsAny(xs[i]) /\ ~IsAny(xs[j])) => Same(xs[i].d, xs[j].d)
CommonDim(xs) == IF \E i \in DOMAIN xs : ~IsAny(xs[i])
                 THEN xs[CHOOSE i \in DOMAIN xs : ~IsAny(xs[i])].d ELSE D1

RECURSIVE SumFin(_)
SumFin(xs) == IF xs = <<>> THEN RZero
              ELSE IF Head(xs).c = "fin" THEN RAdd(Head(xs).v, SumFin(Tail(xs))) ELSE SumFin(Tail(xs))

Count(xs, cls) == Cardinality({i \in DOMAIN xs : xs[i].c = cls})

AddDefined(xs) ==
  /\ Count(xs, "irr") <= 1                        \* two irrationals could cancel: not decided
  /\ \A i \in DOMAIN xs : ~HasAngle(xs[i])        \* angle-dimension terms in sums: statement silent
  /\ Small(SumFin(Tail(xs))) /\ Small(SumFin(xs))  \* operands are Small: no overflow in one RAdd

AddN(xs) ==
  IF \E i \in DOMAIN xs : xs[i].c = "err" THEN Err
  ELSE IF ~Compatible(xs) THEN Err
  ELSE IF Count(xs, "nan") > 0 THEN NaN
  ELSE IF Count(xs, "inf") > 0 /\ Count(xs, "ninf") > 0 THEN NaN
  ELSE IF Count(xs, "inf") > 0 THEN Inf
  ELSE IF Count(xs, "ninf") > 0 THEN NInf
  ELSE IF Count(xs, "irr") > 0 THEN Irr(0, CommonDim(xs))
  ELSE Fin(SumFin(xs), CommonDim(xs))

\* ---- min / max --------------------------------------------------------------
\* min/max with an irrational or NaN operand is not decided (SymPy itself rejects NaN as "not comparable")
MinMaxDefined(a, b) == a.c \notin {"irr", "nan"} /\ b.c \notin {"irr", "nan"} /\ ~HasAngle(a) /\ ~HasAngle(b)

\* extended-real comparison a <= b for classes zero/fin/inf/ninf
LeX(a, b) == \/ a.c = "ninf" \/ b.c = "inf"
             \/ (a.c \in {"zero", "fin"} /\ b.c \in {"zero", "fin"} /\ RLe(a.v, b.v))

MinMax(isMin, a, b) ==
  IF a.c = "err" \/ b.c = "err" THEN Err
  ELSE IF ~Compatible(<<a, b>>) THEN Err
  ELSE IF a.c = "nan" \/ b.c = "nan" THEN NaN
  ELSE LET pick == IF isMin THEN (IF LeX(a, b) THEN a ELSE b) ELSE (IF LeX(a, b) THEN b ELSE a)
       IN  IF pick.c = "fin" THEN Fin(pick.v, CommonDim(<<a, b>>)) ELSE pick

\* ---- absolute value ----------------------------------------------------------
AbsSem(a) ==
  CASE a.c = "err" -> Err [] a.c = "zero" -> Zero [] a.c = "nan" -> NaN
    [] a.c \in {"inf", "ninf"} -> Inf
    [] a.c = "irr" -> Irr(IF a.v[1] = 0 THEN 0 ELSE 1, a.d)
    [] OTHER -> Fin(RAbs(a.v), a.d)

\* ---- power ---------------------------------------------------------------------
\* exponent e: refused iff it is not "any" and not dimensionless
PowRefused(b, e) == ~IsAny(e) /\ e.c # "err" /\ ~Dimless(e.d)

IsHalfInt(r) == r[2] \in {1, 2}
PowDefined(b, e) ==
  \/ b.c = "err" \/ e.c = "err"
  \/ PowRefused(b, e) /\ ~HasAngle(e)
  \/ /\ e.c \in {"zero", "fin"}                    \* infinite / NaN / irrational exponents: not decided
     /\ ~HasAngle(e)
     /\ \/ e.c = "zero"
        \/ b.c = "nan"
        \/ b.c = "zero" /\ RSign(e.v) > 0                                  \* 0 ** negative is complex infinity
        \/ b.c = "inf"
        \/ b.c = "ninf" /\ RIsInt(e.v)
        \/ b.c = "irr" /\ RIsInt(e.v) /\ AbsI(e.v[1]) <= 4
        \/ /\ b.c = "fin" /\ IsHalfInt(e.v) /\ AbsI(e.v[1]) <= 6
           /\ (e.v[2] = 2 => RSign(b.v) > 0 /\ IsSquareR(b.v))
           /\ PowSmall(IF e.v[2] = 2 THEN RSqrt(b.v) ELSE b.v, e.v[1])
           /\ DimSmall(b.d) /\ DimSmall(DPow(b.d, e.v))

PowSem(b, e) ==
  IF b.c = "err" \/ e.c = "err" THEN Err
  ELSE IF PowRefused(b, e) THEN Err
  ELSE IF e.c = "zero" THEN Fin(ROne, D1)
  ELSE IF b.c = "nan" THEN NaN
  ELSE IF b.c = "zero" THEN Zero
  ELSE IF b.c = "inf" THEN (IF RSign(e.v) > 0 THEN Inf ELSE Zero)
  ELSE IF b.c = "ninf" THEN (IF RSign(e.v) < 0 THEN Zero ELSE IF e.v[1] % 2 = 0 THEN Inf ELSE NInf)
  ELSE IF b.c = "irr" THEN Irr(IF e.v[1] % 2 = 0 THEN (IF b.v[1] = 0 THEN 0 ELSE 1) ELSE b.v[1], DPow(b.d, e.v))
  ELSE Fin(RPowInt(IF e.v[2] = 2 THEN RSqrt(b.v) ELSE b.v, e.v[1]), DPow(b.d, e.v))

\* ---- elementary function (exp) ----------------------------------------------------
\* iterated exponentials overflow every number representation: only exp of small rationals is decided
FuncDefined(a) == ~HasAngle(a) /\ a.c # "irr" /\ (a.c = "fin" /\ Dimless(a.d) => AbsI(a.v[1]) <= 20 * a.v[2])
FuncSem(a) ==
  CASE a.c = "err" -> Err
    [] a.c \in {"fin", "irr"} /\ ~Dimless(a.d) -> Err          \* dimensional argument: refused
    [] a.c = "zero" -> Fin(ROne, D1)
    [] a.c = "inf"  -> Inf
    [] a.c = "ninf" -> Zero
    [] a.c = "nan"  -> NaN
    [] OTHER -> Irr(1, D1)


\* ---- elementary function of two arguments (atan2) ------------------------------------
\* every argument must be dimensionless on its own; only finite non-zero arguments are decided
Func2Defined(a, b) == /\ a.c \in {"fin", "err"} /\ b.c \in {"fin", "err"} /\ ~HasAngle(a) /\ ~HasAngle(b)
Func2Sem(a, b) ==
  IF a.c = "err" \/ b.c = "err" THEN Err
  ELSE IF ~Dimless(a.d) \/ ~Dimless(b.d) THEN Err
  ELSE Irr(0, D1)
=============================================================================
