--------------------------- MODULE ConstantsTrace ---------------------------
(* C20, code -> spec: every constant read from symplyphysics.quantities      *)
(* (harness/c20.py) is compared with the reference table of Constants.tla.   *)
(*                                                                          *)
(* The trace holds one TABLE per (history of helper calls performed on the   *)
(* catalogue, read path) - see ConstantsUse.tla; the first table is the      *)
(* direct read (scale factor) without any prior call.                        *)
(* The trace holds one TABLE per (history of helper calls performed on the   *)
(* catalogue's own objects, read path) - see ConstantsUse.tla; the first     *)
(* table is the direct read (scale factor) without any prior call.           *)
(* A recorded row is                                                         *)
(*   [name, exported, d (eight [n, d] exponent pairs in the order L M T I K  *)
(*    N J A), m / e (SI value, nine-digit mantissa and decimal exponent),    *)
(*    sig (significant digits to which the library itself states the value:  *)
(*    the shortest numeric literal of the defining expression, 9 if the      *)
(*    value is taken from SymPy or computed)]                                *)
(*                                                                          *)
(* Row verdict: Equiv(dimension, reference dimension) and the value within   *)
(* one unit of the k-th digit of the reference, k = min(reference precision, *)
(* stated precision).  Then the seven identities of the statement on the     *)
(* RECORDED values.  A constant without a reference row is "uncovered".      *)
EXTENDS Constants, IOUtils

Trace == JsonDeserialize(IOEnv.TRACE_FILE)
\* one table per (history of helper calls, read path): [hist, path, rows]
Tables == Trace.tables
VARIABLE tb
Rows == Tables[tb].rows

BaseSeq == <<"L", "M", "T", "I", "K", "N", "J", "A">>
IdxOf(b) == CHOOSE i \in 1..8 : BaseSeq[i] = b
DimOfSeq(s) == [b \in Base |-> <<s[IdxOf(b)][1], s[IdxOf(b)][2]>>]

Covered(r) == r.name \in Names
RowDimOK(r) == Equiv(DimOfSeq(r.d), Ref[r.name].d)
RowK(r) == MinI2(Ref[r.name].k, r.sig)
RowValOK(r) == r.m >= E8 /\ r.m < E9 /\ BClose([m |-> r.m, e |-> r.e], Num(Ref[r.name]), RowK(r))

\* the recorded table: name -> number, and the precision each recorded constant is stated to
RecNames == {Rows[i].name : i \in 1..Len(Rows)}
RowOf(n) == Rows[CHOOSE i \in 1..Len(Rows) : Rows[i].name = n]
RecNum == [n \in RecNames |-> [m |-> RowOf(n).m, e |-> RowOf(n).e]]
RecK == [n \in RecNames |-> IF n \in Names THEN MinI2(Ref[n].k, RowOf(n).sig) ELSE RowOf(n).sig]

\* twelve-digit values of the recorded constants (limbs hl, exponent he)
RecH == [n \in RecNames |-> [l |-> RowOf(n).hl, e |-> RowOf(n).he]]

TSteps == Len(Rows) + Len(IdSeq) + Len(HIdSeq)
TInit == tb \in 1..Len(Tables) /\ step = 1          \* one initial state per table
TNext == step < TSteps /\ step' = step + 1 /\ UNCHANGED tb

\* one verdict line per recorded constant and per identity (total verdicts)
RowVerdict == step <= Len(Rows) =>
  LET r == Rows[step] IN
    IF ~Covered(r) THEN PrintT(ToJson([tb |-> tb, row |-> r.name, covered |-> FALSE]))
    ELSE PrintT(ToJson([tb |-> tb, row |-> r.name, covered |-> TRUE, dim |-> RowDimOK(r), val |-> RowValOK(r),
                        digits |-> RowK(r), dist |-> BDist([m |-> r.m, e |-> r.e], Num(Ref[r.name])),
                        refm |-> Ref[r.name].m, refe |-> Ref[r.name].e]))

\* the relations that hold to parts in 10^10, in twelve-digit arithmetic
HIdVerdict == step > Len(Rows) + Len(IdSeq) =>
  LET id == HIdSeq[step - Len(Rows) - Len(IdSeq)] IN
    IF ~(Involved(id) \subseteq RecNames) THEN PrintT(ToJson([tb |-> tb, hid |-> id, evaluated |-> FALSE]))
    ELSE PrintT(ToJson([tb |-> tb, hid |-> id, evaluated |-> TRUE, holds |-> HIdHolds(id, RecH),
                        q |-> HTolQ(id), dist |-> HDist(HLhs(id, RecH), HRhs(id, RecH)),
                        lhs |-> HLhs(id, RecH), rhs |-> HRhs(id, RecH)]))

IdVerdict == (step > Len(Rows) /\ step <= Len(Rows) + Len(IdSeq)) =>
  LET id == IdSeq[step - Len(Rows)] IN
    IF ~(Involved(id) \subseteq RecNames) THEN PrintT(ToJson([tb |-> tb, id |-> id, evaluated |-> FALSE]))
    \* mutual consistency does not depend on how coarsely the library happens to WRITE a constant:
    \* the identities are compared to the precision of the reference values (at most 7 digits)
    ELSE PrintT(ToJson([tb |-> tb, id |-> id, evaluated |-> TRUE, holds |-> IdHolds(id, RecNum, RefK),
                        digits |-> IdPrecision(id, RefK), dist |-> BDist(Lhs(id, RecNum), Rhs(id, RecNum)),
                        lhs |-> Lhs(id, RecNum), rhs |-> Rhs(id, RecNum)]))

\* reference rows for which the library exports nothing (informational)
Unmatched == (step = 1 /\ tb = 1) => PrintT(ToJson([unmatched |-> SeqOf(Names \ RecNames)]))
=============================================================================
