---------------------------- MODULE ConstantsUse ----------------------------
(* C20: the constants are CONSTANTS.                                         *)
(*                                                                          *)
(* The statement quantifies over every exported constant: whatever public    *)
(* way a user reads it, and whatever the library's public conversion /       *)
(* evaluation helpers have been asked to do with it before, its value is the *)
(* reference value.  The model: the catalogue `cat` (name -> number) starts  *)
(* as the reference table; Use(h) applies a helper to constants (the         *)
(* helpers are functions of their argument: the catalogue is unchanged);     *)
(* a read through any path returns the catalogue entry.  Every history of    *)
(* helper calls up to MaxHist is a behaviour; TLC emits each one and the     *)
(* harness (harness/c20.py) performs it on the real catalogue in a fresh     *)
(* process image and then reads every constant through every path;          *)
(* ConstantsTrace.tla decides each read against the reference.               *)
EXTENDS Constants

CONSTANTS MaxHist,     \* maximal number of helper calls before the reads
          Helpers,     \* names of the helper operations (shared with the harness)
          Paths        \* names of the read paths (shared with the harness)

VARIABLES hist, cat

UInit == step = 1 /\ hist = <<>> /\ cat = RefNum

\* a helper is handed catalogue constants and returns a NEW value: the catalogue itself does not change.
\* The helper "long_session" stands for a long interactive session (the harness creates 40 000 fresh
\* quantities): however many quantities are created after them, the constants keep their values.
HelperEffect(h, c) == c

Use(h) == /\ Len(hist) < MaxHist
          /\ hist' = Append(hist, h)
          /\ cat' = HelperEffect(h, cat)
          /\ UNCHANGED step

UNext == \E h \in Helpers : Use(h)

ReadVia(p, c, n) == c[n]        \* every path reads the same catalogue entry

CatalogueImmutable == cat = RefNum
ReadsAgree == \A p \in Paths, n \in Names : ReadVia(p, cat, n) = RefNum[n]
IdentitiesSurvive == \A id \in IdNames : IdHolds(id, cat, RefK)

UEmit == PrintT(ToJson([hist |-> hist, paths |-> SeqOf(Paths)]))
=============================================================================
