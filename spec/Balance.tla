------------------------------ MODULE Balance ------------------------------
(* C18, well-formedness: a LaTeX rendering has balanced braces and matched   *)
(* \left / \right delimiters.                                                *)
(*                                                                          *)
(* A pushdown automaton over the bracket events of a token stream.  Every    *)
(* event is <<"o" | "c", kind, delimiter>> with kinds                        *)
(*    "brace"  { }            "left"  \left X  ..  \right Y                  *)
(*    "paren"  ( )            "brack" [ ]         "env"  \begin{X} \end{X}   *)
(* Open pushes; Close is enabled only when the event matches the top of the  *)
(* stack; a stream is accepted iff it is consumed with an empty stack.       *)
(* Matching: same kind; for \left .. \right any delimiter pair is LaTeX-     *)
(* well-formed except a missing delimiter, and the null delimiter "." pairs  *)
(* with everything; round/square/bar/brace/angle delimiters must pair with   *)
(* their own counterpart (\left( x \right] is not what the statement calls   *)
(* matched); environments must carry the same name.                          *)
(* All recorded streams are validated in one TLC run: one initial state per  *)
(* stream (batched trace validation, DESIGN.md A.7).                         *)
EXTENDS Integers, Sequences, FiniteSets, TLC, Json, IOUtils

\* array of [tid, ev]: ev a sequence of <<"o"|"c", kind, delimiter>>
Streams == JsonDeserialize(IOEnv.TRACE_FILE)

VARIABLES t, l, stack
vars == <<t, l, stack>>

Ev == Streams[t].ev

Counterpart(d) == CASE d = "(" -> ")" [] d = "[" -> "]" [] d = "{" -> "}" [] d = "\\{" -> "\\}"
                    [] d = "\\langle" -> "\\rangle" [] d = "\\lfloor" -> "\\rfloor" [] d = "\\lceil" -> "\\rceil"
                    [] OTHER -> d                                   \* | \| / . pair with themselves

Matches(open, close) ==
  /\ open[2] = close[2]
  /\ CASE open[2] = "left" -> /\ open[3] # "<missing>" /\ close[3] # "<missing>"
                              /\ (open[3] = "." \/ close[3] = "." \/ close[3] = Counterpart(open[3]))
       [] open[2] = "env"  -> open[3] = close[3]
       [] OTHER -> TRUE

Init == t \in 1..Len(Streams) /\ l = 1 /\ stack = <<>>

Open == /\ l <= Len(Ev) /\ Ev[l][1] = "o"
        /\ stack' = Append(stack, Ev[l])
        /\ l' = l + 1 /\ UNCHANGED t

Close == /\ l <= Len(Ev) /\ Ev[l][1] = "c"
         /\ Len(stack) > 0 /\ Matches(stack[Len(stack)], Ev[l])
         /\ stack' = SubSeq(stack, 1, Len(stack) - 1)
         /\ l' = l + 1 /\ UNCHANGED t

Next == Open \/ Close

Spec == Init /\ [][Next]_vars

\* properties of the automaton itself
TypeOK == /\ l \in 1..(Len(Ev) + 1)
          /\ \A i \in DOMAIN stack : stack[i][1] = "o"
\* the stack depth is exactly the number of unmatched opens of the consumed prefix
DepthIsOpensMinusCloses ==
  Len(stack) = Cardinality({i \in 1..(l - 1) : Ev[i][1] = "o"}) - Cardinality({i \in 1..(l - 1) : Ev[i][1] = "c"})

\* total verdicts (side-effect invariants): every stream ends in exactly one of the three
Accepted == (l = Len(Ev) + 1 /\ stack = <<>>) => PrintT(<<"ACCEPT", Streams[t].tid>>)
Unclosed == (l = Len(Ev) + 1 /\ stack # <<>>) => PrintT(<<"UNCLOSED", Streams[t].tid, stack[Len(stack)][3]>>)
Stuck    == (l <= Len(Ev) /\ ~ENABLED Next) => PrintT(<<"STUCK", Streams[t].tid, l, Ev[l][3]>>)
=============================================================================
