---------------------------- MODULE RebaseTrace ----------------------------
(* C11, code -> spec.  harness/c11.py records every step the real library   *)
(* executed while the paths were replayed: the projection of the real state *)
(* BEFORE the call (system kind, Cartesian data obtained from the real       *)
(* components by the textbook formulas), the call (rebase to / scale by),     *)
(* whether it raised, and the projection of the real state AFTER the call     *)
(* together with the real dot product / squared magnitude / field value and   *)
(* the kinds of points the real field refused.                               *)
(* Every record must be a step of Rebase!Next: the machine is started in the  *)
(* recorded pre-state and must be able to take the recorded action into a     *)
(* state whose observation equals the recorded one.  Records no action of     *)
(* the specification allows are printed (Stuck).                             *)
EXTENDS Rebase, IOUtils

Recs == JsonDeserialize(IOEnv.TRACE_FILE)

VARIABLES l, phase
tvars == <<obj, a, den, magn, b, repr, path, start, l, phase>>

RI(x)  == <<x, 1>>
RV3(p) == <<RI(p[1]), RI(p[2]), RI(p[3])>>

\* does the model's observation equal what the real code showed?
Matches(o, r) ==
  IF r.obj = "vector"
  THEN /\ r.post.a = o.a /\ r.post.b = RV3(o.b)                 \* Cartesian data of both vectors
       /\ r.post.dot = o.dot                                    \* dot_vectors in the current system
       /\ r.post.mag = o.mag /\ r.post.msq = o.msq              \* vector_magnitude (itself, not only its square)
       /\ r.post.unit = o.unit /\ r.post.proj = o.proj          \* vector_unit, project_vector, projected to Cartesian
  ELSE /\ r.post.value = o.value                                \* value of the field at the physical point
       /\ {r.post.refused[i] : i \in DOMAIN r.post.refused} = {k \in Reprs : o.apply[k] = "refused"}

TInit == \E i \in DOMAIN Recs :
           /\ l = i /\ phase = "pre"
           /\ obj = Recs[i].obj /\ a = Recs[i].a /\ den = Recs[i].den /\ magn = Recs[i].magn
           /\ b = Recs[i].b /\ repr = Recs[i].repr
           /\ path = <<>>
           /\ start = [repr |-> repr, a |-> a, b |-> b, obs |-> Observation]

TNext == /\ phase = "pre" /\ phase' = "post" /\ UNCHANGED l
         /\ LET r == Recs[l] IN
              /\ \/ r.act = "rebase" /\ Rebase(r.arg)
                 \/ r.act = "scale" /\ \E k \in Scales : Scale(k) /\ path'[1].arg = r.arg
              /\ repr' = r.post_repr
              /\ path'[1].ok = ~r.refused
              /\ Matches(path'[1].obs, r)             \* the observation of the successor state, as logged by the action

Stuck == (phase = "pre" /\ ~ENABLED TNext) => PrintT(ToJson([stuck |-> Recs[l].id]))
=============================================================================
