------------------------------- MODULE Gate -------------------------------
(* C04: the dimension gate in front of (and behind) a guarded function.      *)
(*                                                                          *)
(* Written from the statement of C04, not from the decorator's code:         *)
(*  - a guarded call is bound (positionally or by keyword), every guarded    *)
(*    argument is checked against its declaration, the body runs only if     *)
(*    every check passed, the result is checked, and the call returns only   *)
(*    if that check passed;                                                  *)
(*  - an argument is a scalar (a bare number or a quantity), a sequence of   *)
(*    scalars / vectors (every element is checked), or a quantity vector;    *)
(*  - a check passes iff the dimensions are equivalent, angle counting as    *)
(*    dimensionless (Dims!Equiv); a value that is zero, infinite or NaN      *)
(*    matches anything; a bare non-zero number against a dimensional         *)
(*    declaration is a TypeError, a quantity of another dimension a          *)
(*    UnitsError (a *dimensionless quantity* against a dimensional           *)
(*    declaration must be refused, the statement does not say with which of  *)
(*    the two);                                                              *)
(*  - the verdict depends neither on the magnitude, nor on the unit prefix,  *)
(*    nor on positional versus keyword passing.                              *)
(* The order in which the guarded parameters are checked is not part of the  *)
(* statement: CheckParam takes any parameter that is still to be checked.    *)
(*                                                                          *)
(* The behaviours of this machine are the test inputs (harness/c04.py        *)
(* replays every one of them into probe functions decorated with the real    *)
(* validate_input / validate_output / validate_output_same), and             *)
(* GateTrace.tla validates recorded executions of the real decorators        *)
(* against the same actions.                                                 *)
EXTENDS Dims, Sequences, TLC, Json, FiniteSets

CONSTANTS
  ActL, ActM, ActT, ActA,      \* exponents spanning the dimensions of actual arguments / results, written as
                               \* 8 + 2e for the exponent e (cfg files hold neither negative numbers nor fractions)
  DeclL, DeclM, DeclT, DeclA,  \* the same for the declared dimensions
  Values,        \* spellings of the value of a quantity            (subset of DOMAIN ValClass)
  NumValues,     \* spellings of a bare number                      (subset of DOMAIN ValClass)
  Prefixes,      \* unit prefixes a quantity is written with        (subset of {"base", "kilo", "milli"})
  Shapes,        \* subset of {"scalar", "seq", "vec"}
  MaxSeq,        \* sequences of 0..MaxSeq elements
  VecSystems,    \* subset of {"cart", "cyl", "sph"}
  VecValues,     \* spellings of vector components (finite or zero)
  VecWays,       \* how a vector is built: subset of {"infer", "explicit", "base", "baseexplicit"} - the dimension
                 \* inferred from the components or passed as dimension=, directly or through from_base_vector
  TupleDecls,    \* BOOLEAN: also declare sequences of two elements element-wise (a pair of dimensions)
  MaxParams,     \* 1..MaxParams guarded parameters per call
  CallStyles,    \* how the arguments are passed: subset of AllStyles
  ResultKinds    \* subset of {"none", "dim", "same"}: no result check / declared dimension / same as parameter 1

VARIABLES call,   \* the call being made (never changes: the behaviours are the test inputs)
          pc,     \* "bound" -> "checking" -> "ran" -> "returned", or "raised"
          todo,   \* guarded parameters not yet checked
          out     \* [t |-> error type, p |-> refused parameter (0 = the result)] once raised

vars == <<call, pc, todo, out>>

-----------------------------------------------------------------------------
(* Values: only the class matters to the gate.                               *)
ValClass == [ sone |-> "fin", sf25 |-> "fin",          \* SymPy Integer / Float spellings of one and 2.5
              \* one half and zero as numbers of other types: fractions.Fraction, decimal.Decimal, mpmath.mpf
              frac |-> "fin", dec |-> "fin", mpf |-> "fin", fraczero |-> "zero", deczero |-> "zero",
              one |-> "fin", three |-> "fin", neg |-> "fin", f25 |-> "fin", big |-> "fin", tiny |-> "fin",
              cplx |-> "fin",
              \* non-zero finite values outside the range of binary doubles (10^400, 10^-400 as exact numbers,
              \* 1e400 and 1e-330 as arbitrary-precision floats): finite and non-zero all the same
              huge |-> "fin", fhuge |-> "fin", minute |-> "fin", fminute |-> "fin",
              zero |-> "zero", fzero |-> "zero",
              inf |-> "inf", finf |-> "inf", ninf |-> "ninf", nan |-> "nan", fnan |-> "nan" ]
Classes == {"zero", "fin", "inf", "ninf", "nan"}
IsAnyC(c) == c # "fin"                   \* zero, infinity and NaN match anything

Half(n) == Norm(n - 8, 2)                \* 8 + 2e |-> e
DimOf(l, m, t, a) == LMT(Half(l), Half(m), Half(t), Half(a))
ActDims  == {DimOf(l, m, t, a) : l \in ActL, m \in ActM, t \in ActT, a \in ActA}
DeclDims == {DimOf(l, m, t, a) : l \in DeclL, m \in DeclM, t \in DeclT, a \in DeclA}

Refusals == {"TypeError", "UnitsError"}
AllOutcomes == {"pass"} \cup Refusals

-----------------------------------------------------------------------------
(* The verdict, from the statement.                                          *)

\* a: [k |-> "qty" | "num", c |-> class, d |-> Dim]     dd: a declared dimension
ScalarV(a, dd) ==
  IF IsAnyC(a.c) THEN {"pass"}
  ELSE LET ad == IF a.k = "num" THEN D1 ELSE a.d IN
       IF Equiv(ad, dd) THEN {"pass"}
       ELSE IF a.k = "num" THEN {"TypeError"}                        \* bare non-zero number
       ELSE IF DimlessUpToAngle(ad) THEN Refusals                    \* dimensionless quantity: refused, type left open
       ELSE {"UnitsError"}                                           \* quantity of another dimension

\* a: [k |-> "vec", d |-> Dim of the vector, cs |-> classes of its (non-angle) components, mix |-> 0..3]
\* a vector whose components are all zero / infinite / NaN: every component matches anything while the
\* vector as a whole carries a dimension - the statement does not decide it
\* mix # 0: component mix carries another dimension than the rest - such a vector must never reach the body,
\* whatever is declared (it is refused when it is built, or by the gate)
VecV(a, dd) ==
  IF a.mix # 0 THEN Refusals
  ELSE IF \A i \in DOMAIN a.cs : IsAnyC(a.cs[i]) THEN AllOutcomes
  ELSE ScalarV([k |-> "qty", c |-> "fin", d |-> a.d], dd)

ItemV(a, dd) == IF a.k = "vec" THEN VecV(a, dd) ELSE ScalarV(a, dd)

\* decl: [k |-> "one", d |-> Dim]  or  [k |-> "each", ds |-> <<Dim, ...>>]  (element-wise)
ElemDecl(decl, i) == IF decl.k = "one" THEN decl.d ELSE decl.ds[i]

\* every element is checked; which failing element is reported first is not part of the statement
SeqV(a, decl) ==
  LET V(i) == ItemV(a.items[i], ElemDecl(decl, i)) IN
    (IF \A i \in DOMAIN a.items : "pass" \in V(i) THEN {"pass"} ELSE {})
    \cup UNION {V(i) \ {"pass"} : i \in DOMAIN a.items}

Verdict(a, decl) ==
  IF a.k = "seq" THEN SeqV(a, decl) ELSE ItemV(a, ElemDecl(decl, 1))

\* the declaration of the result: a dimension, or "the same as parameter 1".  The reference is then a value:
\* a bare zero / infinity / NaN matches anything, so every result passes; a zero / infinite / NaN *quantity*
\* still carries a dimension label of its own - whether that label counts is left open
ResultV(c) ==
  CASE c.r.rk = "none" -> {"pass"}
    [] c.r.rk = "dim"  -> Verdict(c.r.res, c.r.rd)
    [] c.r.rk = "same" -> IF IsAnyC(c.args[1].c) /\ c.args[1].k = "num" THEN {"pass"}   \* a bare 0 / inf / NaN matches anything
                          ELSE IF IsAnyC(c.args[1].c) THEN AllOutcomes
                          ELSE Verdict(c.r.res, [k |-> "one", d |-> IF c.args[1].k = "num" THEN D1 ELSE c.args[1].d])

-----------------------------------------------------------------------------
(* The inputs.                                                               *)
Qty(v, p, d) == [k |-> "qty", c |-> ValClass[v], d |-> d, val |-> v, pre |-> p]
Num(v)       == [k |-> "num", c |-> ValClass[v], d |-> D1, val |-> v, pre |-> "base"]
Scalars == {Qty(v, p, d) : v \in Values, p \in Prefixes, d \in ActDims} \cup {Num(v) : v \in NumValues}

\* a vector in a non-Cartesian system starts with a non-zero radial component
IsAngleComp(s, i) == (s = "cyl" /\ i = 2) \/ (s = "sph" /\ i \in {2, 3})
Vecs == {[k |-> "vec", sys |-> s, d |-> d, vals |-> vs, cs |-> [i \in DOMAIN vs |-> ValClass[vs[i]]], pre |-> p, mix |-> m,
          via |-> w] :
           s \in VecSystems, d \in ActDims, p \in Prefixes, m \in 0..3, w \in VecWays,
           vs \in UNION {[1..n -> VecValues] : n \in 2..3}}
\* a mixed component is a finite non-angle component next to another finite non-angle component
GoodVec(v) ==
  /\ v.sys = "cart" \/ (Len(v.vals) = 3 /\ ValClass[v.vals[1]] = "fin")
  /\ v.mix # 0 => /\ v.mix <= Len(v.vals) /\ ~IsAngleComp(v.sys, v.mix) /\ v.cs[v.mix] = "fin"
                  /\ \E j \in DOMAIN v.vals : j # v.mix /\ ~IsAngleComp(v.sys, j) /\ v.cs[j] = "fin"

Seqs == {[k |-> "seq", items |-> s] : s \in UNION {[1..n -> Scalars] : n \in 0..MaxSeq}}

Args == (IF "scalar" \in Shapes THEN Scalars ELSE {})
        \cup (IF "seq" \in Shapes THEN Seqs ELSE {})
        \cup (IF "vec" \in Shapes THEN {v \in Vecs : GoodVec(v)} ELSE {})

Decls == {[k |-> "one", d |-> d] : d \in DeclDims}
         \cup (IF TupleDecls /\ MaxSeq >= 2 THEN {[k |-> "each", ds |-> s] : s \in [1..2 -> DeclDims]} ELSE {})

\* an element-wise declaration is only meaningful for a sequence of the same length
Fits(a, decl) == IF decl.k = "one" THEN TRUE ELSE (IF a.k = "seq" THEN Len(a.items) = Len(decl.ds) ELSE FALSE)

NoArg == [k |-> "none"]
Results == (IF "none" \in ResultKinds THEN {[rk |-> "none", res |-> NoArg, rd |-> NoArg]} ELSE {})
           \cup (IF "dim" \in ResultKinds THEN {[rk |-> "dim", res |-> a, rd |-> d] : a \in Args, d \in {x \in Decls : x.k = "one"}} ELSE {})
           \cup (IF "same" \in ResultKinds THEN {[rk |-> "same", res |-> a, rd |-> NoArg] : a \in Args} ELSE {})

WellFormedCall(c) ==
  /\ \A i \in 1..c.n : Fits(c.args[i], c.decls[i])
  /\ IF c.r.rk = "same" THEN c.args[1].k \in {"qty", "num"} ELSE TRUE

-----------------------------------------------------------------------------
(* The call protocol.                                                        *)
NoOut == [t |-> "none", p |-> -1]

(* Call styles.  The statement: the verdict never depends on positional versus keyword passing.          *)
(*   pos        all arguments positional                                                                *)
(*   kw         all by keyword, in the order of the signature                                           *)
(*   kwrev      all by keyword, in the reverse order                                                    *)
(*   mixed      the first positional, the others by keyword in reverse order                            *)
(*   optskip    the function has an unguarded parameter with a default after its first parameter; it is  *)
(*              not passed: first argument positional, the others by keyword                             *)
(*   optskipkw  the same function, all arguments by keyword in reverse order                             *)
(*   optgiven   the same function, the optional parameter passed first by keyword, then the others        *)
AllStyles == {"pos", "kw", "kwrev", "mixed", "optskip", "optskipkw", "optgiven"}
\* with a single guarded parameter the orders coincide
StyleFits(n, st) == IF n >= 2 THEN TRUE ELSE st \in {"pos", "kw", "optgiven"}

Init == /\ \E n \in 1..MaxParams :
             \E a \in [1..n -> Args], dd \in [1..n -> Decls], st \in CallStyles, r \in Results :
               /\ StyleFits(n, st)
               /\ call = [n |-> n, args |-> a, decls |-> dd, style |-> st, r |-> r]
               /\ WellFormedCall(call)
        /\ pc = "bound" /\ todo = {} /\ out = NoOut

\* however the arguments are passed (call.style), each is bound to the parameter it is meant for, and
\* every guard declaration must refer to a parameter that exists (an argument that is there)
Bind == /\ pc = "bound"
        /\ \A i \in 1..call.n : call.args[i].k # "absent"
        /\ pc' = "checking" /\ todo' = 1..call.n
        /\ UNCHANGED <<call, out>>

CheckParam(i, v) ==
  /\ pc = "checking" /\ i \in todo
  /\ v \in Verdict(call.args[i], call.decls[i])
  /\ IF v = "pass" THEN todo' = todo \ {i} /\ UNCHANGED <<pc, out>>
     ELSE pc' = "raised" /\ out' = [t |-> v, p |-> i] /\ UNCHANGED todo    \* the error names parameter i
  /\ UNCHANGED call

Run == /\ pc = "checking" /\ todo = {}
       /\ pc' = "ran"
       /\ UNCHANGED <<call, todo, out>>

CheckResult(v) ==
  /\ pc = "ran"
  /\ v \in ResultV(call)
  /\ IF v = "pass" THEN pc' = "returned" /\ UNCHANGED out
     ELSE pc' = "raised" /\ out' = [t |-> v, p |-> 0]
  /\ UNCHANGED <<call, todo>>

Check  == \E i \in todo, v \in AllOutcomes : CheckParam(i, v)
Result == \E v \in AllOutcomes : CheckResult(v)
Next == Bind \/ Check \/ Run \/ Result

Spec == Init /\ [][Next]_vars

Terminal == pc \in {"returned", "raised"}
BodyRan  == pc \in {"ran", "returned"} \/ (pc = "raised" /\ out.p = 0)

-----------------------------------------------------------------------------
(* Properties of the model (checked by TLC in every configuration).         *)
TypeOK == /\ pc \in {"bound", "checking", "ran", "returned", "raised"}
          /\ todo \subseteq 1..call.n
          /\ out.t \in Refusals \cup {"none"}
          /\ (pc = "raised") = (out # NoOut)

\* the function runs only if every guarded argument could pass, returns only if the result could
RunsOnlyIfAllPassed   == BodyRan => \A i \in 1..call.n : "pass" \in Verdict(call.args[i], call.decls[i])
ReturnsOnlyIfResultOK == pc = "returned" => "pass" \in ResultV(call)
RefusalIsJustified ==
  pc = "raised" =>
    IF out.p = 0 THEN out.t \in ResultV(call) ELSE out.t \in Verdict(call.args[out.p], call.decls[out.p])

\* all outcomes of a call, defined without the machine: compared with the machine in every terminal state
Outcomes(c) ==
  LET V(i) == Verdict(c.args[i], c.decls[i])
      allPass == \A i \in 1..c.n : "pass" \in V(i)
  IN  {<<"raised", x[1], x[2]>> : x \in {y \in Refusals \X (1..c.n) : y[1] \in V(y[2])}}
      \cup (IF allPass THEN {<<"raised", t, 0>> : t \in ResultV(c) \ {"pass"}} ELSE {})
      \cup (IF allPass /\ "pass" \in ResultV(c) THEN {<<"returned", "none", -1>>} ELSE {})
FinalIsAnOutcome == Terminal => <<pc, out.t, out.p>> \in Outcomes(call)

\* --- independence ------------------------------------------------------------------
\* (these depend on the call only: they are evaluated once per call, in its first state)
AtStart == pc = "bound"
Respell(a, v, p) ==          \* the same scalar written with another magnitude / prefix of the same class
  IF a.k = "qty" THEN Qty(v, p, a.d) ELSE Num(v)
SameClassValues(a) == {v \in (IF a.k = "qty" THEN Values ELSE NumValues) : ValClass[v] = a.c}

VerdictIndependentOfMagnitude == AtStart =>
  \A i \in 1..call.n : call.args[i].k \in {"qty", "num"} =>
    \A v \in SameClassValues(call.args[i]) :
      Verdict(Respell(call.args[i], v, call.args[i].pre), call.decls[i]) = Verdict(call.args[i], call.decls[i])
VerdictIndependentOfPrefix == AtStart =>
  \A i \in 1..call.n : call.args[i].k = "qty" =>
    \A p \in Prefixes :
      Verdict(Respell(call.args[i], call.args[i].val, p), call.decls[i]) = Verdict(call.args[i], call.decls[i])
VerdictIndependentOfCallStyle == AtStart =>
  \A st \in AllStyles : Outcomes([call EXCEPT !.style = st]) = Outcomes(call)

\* a type error exactly for a bare non-zero number against a dimensional declaration; a units error for a
\* (non-zero, finite) quantity of another dimension
TypeErrorIffBareNonzeroNumber == AtStart =>
  \A i \in 1..call.n : call.args[i].k \in {"qty", "num"} =>
    LET a == call.args[i]  dd == ElemDecl(call.decls[i], 1)  V == Verdict(a, call.decls[i]) IN
      /\ (V = {"TypeError"}) = (a.k = "num" /\ a.c = "fin" /\ ~DimlessUpToAngle(dd))
      /\ ("UnitsError" \in V) = (a.k = "qty" /\ a.c = "fin" /\ ~Equiv(a.d, dd))
      /\ ("pass" \in V) = (IsAnyC(a.c) \/ Equiv(a.d, dd))
      /\ V # {}

\* the verdict of a vector does not depend on the way it was built; a vector with a component of another
\* dimension never passes, whichever way it was built and whatever is declared
VectorsHoweverBuilt == AtStart =>
  \A i \in 1..call.n : call.args[i].k = "vec" =>
    /\ \A w \in {"infer", "explicit", "base", "baseexplicit"} :
          Verdict([call.args[i] EXCEPT !.via = w], call.decls[i]) = Verdict(call.args[i], call.decls[i])
    /\ (call.args[i].mix # 0 => "pass" \notin Verdict(call.args[i], call.decls[i]))

\* adding or removing an angle factor never changes the verdict of a quantity
AngleIsErased == AtStart =>
  \A i \in 1..call.n : call.args[i].k = "qty" =>
    LET a == call.args[i] IN
      Verdict([a EXCEPT !.d = Erase(a.d)], call.decls[i]) = Verdict(a, call.decls[i])

-----------------------------------------------------------------------------
(* Emission of complete behaviours for the replay harness (spec -> code).    *)
DimSeq(d) == <<d["L"], d["M"], d["T"], d["I"], d["K"], d["N"], d["J"], d["A"]>>
RECURSIVE ArgJ(_)
ArgJ(a) == CASE a.k = "seq" -> [k |-> "seq", items |-> [i \in DOMAIN a.items |-> ArgJ(a.items[i])]]
             [] a.k = "vec" -> [k |-> "vec", sys |-> a.sys, d |-> DimSeq(a.d), vals |-> a.vals, pre |-> a.pre, mix |-> a.mix, via |-> a.via]
             [] a.k = "none" -> [k |-> "none"]
             [] OTHER -> [k |-> a.k, val |-> a.val, pre |-> a.pre, d |-> DimSeq(a.d)]
DeclJ(x) == CASE x.k = "one" -> [k |-> "one", d |-> DimSeq(x.d)]
              [] x.k = "each" -> [k |-> "each", ds |-> [i \in DOMAIN x.ds |-> DimSeq(x.ds[i])]]
              [] OTHER -> [k |-> "none"]
CallJ == [n |-> call.n, args |-> [i \in 1..call.n |-> ArgJ(call.args[i])],
          decls |-> [i \in 1..call.n |-> DeclJ(call.decls[i])], style |-> call.style,
          r |-> [rk |-> call.r.rk, res |-> ArgJ(call.r.res), rd |-> DeclJ(call.r.rd)]]
Emit == Terminal => PrintT(ToJson([call |-> CallJ, fin |-> [pc |-> pc, t |-> out.t, p |-> out.p, ran |-> BodyRan]]))
=============================================================================
