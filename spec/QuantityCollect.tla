-------------------------- MODULE QuantityCollect --------------------------
(* C05: building a quantity from an arithmetic expression.                  *)
(*                                                                          *)
(* A postfix stack machine: the behaviours of this specification ARE the     *)
(* expression trees the property quantifies over (every state with one       *)
(* stack entry is a complete expression).  Each stack entry is the meaning   *)
(* the property assigns to the sub-expression:                               *)
(*     [c |-> class, v |-> exact SI value, d |-> dimension]                  *)
(* classes: "zero" "fin" (non-zero rational, value v) "inf" "ninf" "nan"     *)
(*          "irr" (finite, non-zero, irrational: value not tracked, v holds  *)
(*                 the sign 1/-1/0=unknown)                                  *)
(*          "err" (construction must be refused)                             *)
(* A term whose class is zero/inf/ninf/nan is "any": compatible with every   *)
(* dimension; its own dimension is normalised to D1 and never compared.      *)
(* The semantics below is written from the statement of C05, not from the    *)
(* collector's code; the harness replays every behaviour into the real       *)
(* Quantity(...) and compares value, dimension and refusal.                  *)
EXTENDS ExprSem, TLC, Json

CONSTANTS MaxLen,       \* maximal number of nodes of a generated expression
          LeafNames,    \* subset of DOMAIN LeafVal used by this configuration
          OpNames       \* subset of AllOps

VARIABLES stack, prog,
          lfs,     \* parallel to stack: TRUE for leaves
          cz       \* TRUE once a COMPUTED (non-leaf) zero / infinite / NaN value was used as an operand: ordinary
                   \* evaluated SymPy construction restructures such expressions (flattening, 0 * x -> 0)

vars == <<stack, prog, lfs, cz>>

(* The leaf alphabet.  Names are shared with the harness (harness/c05.py),   *)
(* which maps every name to a real SymPy / symplyphysics object.             *)
LeafVal == [
  n0    |-> Zero,
  n1    |-> Fin(R(1), D1),
  n2    |-> Fin(R(2), D1),
  n3    |-> Fin(R(3), D1),
  nm1   |-> Fin(R(-1), D1),
  nm2   |-> Fin(R(-2), D1),
  nh    |-> Fin(<<1, 2>>, D1),
  n4    |-> Fin(R(4), D1),
  oo    |-> Inf,
  noo   |-> NInf,
  nan   |-> NaN,
  m     |-> Fin(R(1), L1),
  km    |-> Fin(R(1000), L1),
  cm    |-> Fin(<<1, 100>>, L1),
  s     |-> Fin(R(1), T1),
  minute |-> Fin(R(60), T1),
  kg    |-> Fin(R(1), M1),
  gram  |-> Fin(<<1, 1000>>, M1),
  newton |-> Fin(R(1), Force),
  hz    |-> Fin(R(1), DInv(T1)),        \* hertz: its Dimension object is "frequency", equivalent to 1/time
  joule |-> Fin(R(1), Energy),
  rad   |-> Fin(R(1), D1),              \* SymPy's radian is a dimensionless unit of scale 1
  kilo  |-> Fin(R(1000), D1),           \* symplyphysics prefix (a plain number)
  milli |-> Fin(<<1, 1000>>, D1),
  pkilo |-> Fin(R(1000), D1),           \* sympy.physics.units Prefix object
  pkibi |-> Fin(R(1024), D1),           \* binary Prefix object: base 2, exponent 10
  q2m   |-> Fin(R(2), L1),              \* previously built Quantity(2 * meter)
  q4m2  |-> Fin(R(4), DPow(L1, R(2))),  \* previously built Quantity(4 * meter**2)
  q0    |-> Zero,                       \* previously built Quantity(0)
  qang  |-> Fin(R(2), Angle),           \* Quantity(2, dimension=angle_type)
  sym   |-> Err,                        \* a free symbol
  deriv |-> Err                         \* an unevaluated derivative
]

AllOps == {"mul2", "mul3", "add2", "add3", "pow", "abs", "min2", "max2", "exp", "atan2"}
Arity(o) == CASE o \in {"mul2", "add2", "pow", "min2", "max2", "atan2"} -> 2
              [] o \in {"mul3", "add3"} -> 3
              [] OTHER -> 1

-----------------------------------------------------------------------------
(* The machine.                                                              *)

Top(k) == stack[Len(stack) - k]                 \* Top(0) is the top of the stack
Pop(n) == SubSeq(stack, 1, Len(stack) - n)

Init == stack = <<>> /\ prog = <<>> /\ lfs = <<>> /\ cz = FALSE

Push(l) == /\ Len(prog) + 1 + Len(stack) <= MaxLen        \* room to combine it afterwards
           /\ stack' = Append(stack, LeafVal[l])
           /\ prog' = Append(prog, l)
           /\ lfs' = Append(lfs, TRUE) /\ UNCHANGED cz

Apply(o) ==
  /\ Len(stack) >= Arity(o)
  /\ Len(prog) + 1 + (Len(stack) - Arity(o)) <= MaxLen
  /\ prog' = Append(prog, o)
  /\ lfs' = Append(SubSeq(lfs, 1, Len(lfs) - Arity(o)), FALSE)
  /\ cz' = (cz \/ \E k \in 0..(Arity(o) - 1) : ~lfs[Len(lfs) - k] /\ IsAny(Top(k)))
  /\ CASE o = "mul2" -> /\ Mul2Defined(Top(1), Top(0))
                        /\ stack' = Append(Pop(2), Mul2(Top(1), Top(0)))
       [] o = "mul3" -> /\ Mul2Defined(Top(2), Top(1)) /\ Mul2Defined(Mul2(Top(2), Top(1)), Top(0))
                        /\ Mul2Defined(Top(1), Top(0)) /\ Mul2Defined(Top(2), Mul2(Top(1), Top(0)))
                        /\ stack' = Append(Pop(3), Mul2(Mul2(Top(2), Top(1)), Top(0)))
       [] o = "add2" -> /\ AddDefined(<<Top(1), Top(0)>>)
                        /\ stack' = Append(Pop(2), AddN(<<Top(1), Top(0)>>))
       [] o = "add3" -> /\ AddDefined(<<Top(2), Top(1), Top(0)>>)
                        /\ stack' = Append(Pop(3), AddN(<<Top(2), Top(1), Top(0)>>))
       [] o = "pow"  -> /\ PowDefined(Top(1), Top(0))
                        /\ stack' = Append(Pop(2), PowSem(Top(1), Top(0)))
       [] o = "abs"  -> stack' = Append(Pop(1), AbsSem(Top(0)))
       [] o = "min2" -> /\ MinMaxDefined(Top(1), Top(0))
                        /\ stack' = Append(Pop(2), MinMax(TRUE, Top(1), Top(0)))
       [] o = "max2" -> /\ MinMaxDefined(Top(1), Top(0))
                        /\ stack' = Append(Pop(2), MinMax(FALSE, Top(1), Top(0)))
       [] o = "exp"  -> /\ FuncDefined(Top(0))
                        /\ stack' = Append(Pop(1), FuncSem(Top(0)))
       [] o = "atan2" -> /\ Func2Defined(Top(1), Top(0))
                         /\ stack' = Append(Pop(2), Func2Sem(Top(1), Top(0)))

Next == (\E l \in LeafNames : Push(l)) \/ (\E o \in OpNames : Apply(o))

Spec == Init /\ [][Next]_vars

-----------------------------------------------------------------------------
(* Properties of the model itself (checked by TLC in every configuration).   *)

WellFormed(x) ==
  /\ x.c \in Classes
  /\ IsRat(x.v) /\ Small(x.v)
  /\ (x.c = "fin" => x.v # RZero)
  /\ (x.c \in AnyCls \cup {"err"} => x.d = D1 /\ x.v = RZero)
  /\ \A k \in Base : IsRat(x.d[k])

TypeOK == \A i \in DOMAIN stack : WellFormed(stack[i])

\* a refusal is never lost: once a sub-expression is refused, the expression is
ErrSticky == [][(\E i \in DOMAIN stack : stack[i].c = "err") =>
                (\E i \in DOMAIN stack' : stack'[i].c = "err")]_vars

\* the meaning does not depend on the order in which operands are written
OrderIndependent ==
  Len(stack) >= 2 =>
    LET a == Top(1)  b == Top(0) IN
      /\ (AddDefined(<<a, b>>) => AddN(<<a, b>>) = AddN(<<b, a>>))
      /\ (Mul2Defined(a, b) => Mul2(a, b) = Mul2(b, a))
      /\ (MinMaxDefined(a, b) => MinMax(TRUE, a, b) = MinMax(TRUE, b, a) /\ MinMax(FALSE, a, b) = MinMax(FALSE, b, a))
OrderIndependent3 ==
  Len(stack) >= 3 =>
    LET a == Top(2)  b == Top(1)  c == Top(0) IN
      (AddDefined(<<a, b, c>>) =>
         /\ AddN(<<a, b, c>>) = AddN(<<c, a, b>>) /\ AddN(<<a, b, c>>) = AddN(<<b, a, c>>)
         \* nesting agrees with the flat sum whenever the inner sum is not refused and not any-valued
         /\ (AddN(<<a, b>>).c \in {"fin", "irr"} /\ AddDefined(<<AddN(<<a, b>>), c>>) => AddN(<<AddN(<<a, b>>), c>>) = AddN(<<a, b, c>>)))

\* an accepted dimensional result is the dimensional product of its parts:
\* scaling every length unit by k (here: checking homogeneity degree) is covered by DimAlgebra in Dims
AnyHasNoDimension == \A i \in DOMAIN stack : IsAny(stack[i]) => stack[i].d = D1

-----------------------------------------------------------------------------
(* Emission of complete behaviours for the replay harness (spec -> code).    *)
DimSeq(d) == <<d["L"], d["M"], d["T"], d["I"], d["K"], d["N"], d["J"], d["A"]>>
Done == Len(stack) = 1 /\ Len(prog) >= 1
Emit == Done => PrintT(ToJson([p |-> prog, c |-> stack[1].c, v |-> stack[1].v, d |-> DimSeq(stack[1].d), z |-> cz]))
=============================================================================
