------------------------------ MODULE Convert ------------------------------
(* C07: unit conversion is exact, invertible and scale-consistent.           *)
(*                                                                          *)
(* Written from the statement.  A quantity is its exact value in SI base     *)
(* units together with its dimension, [v |-> Rat, d |-> Dim]; a unit is a    *)
(* quantity.  Three small machines share the module (variable mode):         *)
(*                                                                          *)
(*  "chain": a quantity written as n times a unit is converted from unit to  *)
(*           unit.  Converting to a unit of equivalent dimension (angle      *)
(*           counts as dimensionless) gives the number n with n * unit =     *)
(*           quantity; converting to a unit of another dimension is          *)
(*           refused.  The behaviours are all conversion chains a -> b ->    *)
(*           c ... over the unit table: composition, inverse and the SI      *)
(*           value are invariants of the machine.                            *)
(*           A quantity may be complex, value * (1 + k i): units are real, so  *)
(*           every conversion scales the real and the imaginary part alike    *)
(*           (cur.n is the real part, the imaginary part is k * cur.n); only  *)
(*           a real number can be handed out as a float.  The Celsius helper   *)
(*           for quantities is one more conversion: defined exactly for        *)
(*           temperatures (n kelvin |-> n - 273.15), refused otherwise.        *)
(*  "expr":  an arithmetic expression of two quantities is evaluated by      *)
(*           replacing every quantity by its SI number: the result is the    *)
(*           SI value of the expression taken as a quantity.                 *)
(*  "temp":  Celsius <-> kelvin with the offset 273.15 (temperatures in      *)
(*           millionths of a degree).                                        *)
(*                                                                          *)
(* harness/c07.py replays every behaviour into the real convert_to /         *)
(* convert_to_si / convert_to_float / evaluate_expression / to_kelvin /      *)
(* from_kelvin (...); ConvertTrace.tla validates recorded real conversions.  *)
EXTENDS Dims, Sequences, TLC, Json, FiniteSets

CONSTANTS UnitNames,    \* subset of DOMAIN Units
          ValueNames,   \* subset of DOMAIN Vals
          MaxChain,     \* conversions per chain
          ExprOps,      \* subset of {"mul", "div", "add", "sub", "sq", "scale"}
          ExprUnits, ExprVals,   \* unit and value of the second operand of an expression
          ScaledVals,   \* start values whose expressions are also taken with both operands scaled by 10^e
          Exps10,       \* the exponents e, written 40 + e
          ImagFactors,  \* k: the quantity a chain starts from is value * (1 + k i) units (0: a real value)
          ComplexVals,  \* the values that are also taken with an imaginary part
          Temps         \* temperatures the Celsius/kelvin machine starts from, written as 300000000 + millionths
                        \* of a degree (cfg files hold no negative numbers)

VARIABLES mode, start, cur, chain, err, expr, temp
vars == <<mode, start, cur, chain, err, expr, temp>>

-----------------------------------------------------------------------------
L1 == BaseDim("L")   M1 == BaseDim("M")   T1 == BaseDim("T")   K1 == BaseDim("K")   A1 == BaseDim("A")
Speed    == LMT(ROne, RZero, R(-1), RZero)
Force    == LMT(ROne, ROne, R(-2), RZero)
Energy   == LMT(R(2), ROne, R(-2), RZero)
Power    == LMT(R(2), ROne, R(-3), RZero)
Pressure == LMT(R(-1), ROne, R(-2), RZero)
Freq     == LMT(RZero, RZero, R(-1), RZero)
Volume   == DPow(L1, R(3))
\* x: the exponent of a base dimension outside the SI ("information": bit, byte).  It has no SI unit; it is a
\* dimension like any other for the question whether a conversion is allowed.
UX(v, d, x) == [v |-> v, d |-> d, x |-> x]
U(v, d) == UX(v, d, 0)

(* The unit table: exact SI value of one unit, and its dimension.  Names are  *)
(* shared with harness/c07.py, which maps each to a real unit expression.     *)
Units == [
  one     |-> U(ROne, D1),            percent |-> U(<<1, 100>>, D1),     rad   |-> U(ROne, D1),
  \* plain numbers as "units" of a dimensionless quantity: 1000, the fraction 1/100, the float 0.5
  thousand |-> U(R(1000), D1),        hundredth |-> U(<<1, 100>>, D1),   half  |-> U(<<1, 2>>, D1),
  aq      |-> U(ROne, A1),            \* a quantity of the separate angle dimension (equivalent to dimensionless)
  m       |-> U(ROne, L1),            km      |-> U(R(1000), L1),        cm    |-> U(<<1, 100>>, L1),
  mm      |-> U(<<1, 1000>>, L1),     kilo_m  |-> U(R(1000), L1),        \* prefixes.kilo * meter
  milli_m |-> U(<<1, 1000>>, L1),     \* prefixes.milli * meter (a float in the library)
  inch    |-> U(<<127, 5000>>, L1),
  s       |-> U(ROne, T1),            minute  |-> U(R(60), T1),          hour  |-> U(R(3600), T1),
  ms      |-> U(<<1, 1000>>, T1),
  kg      |-> U(ROne, M1),            gram    |-> U(<<1, 1000>>, M1),    tonne |-> U(R(1000), M1),
  newton  |-> U(ROne, Force),         kN      |-> U(R(1000), Force),     \* prefixes.kilo * newton
  joule   |-> U(ROne, Energy),        Nm      |-> U(ROne, Energy),       \* newton * meter
  Wh      |-> U(R(3600), Energy),     \* watt * hour
  watt    |-> U(ROne, Power),
  pascal  |-> U(ROne, Pressure),      kPa     |-> U(R(1000), Pressure),
  hertz   |-> U(ROne, Freq),          rad_s   |-> U(ROne, Freq),         \* radian / second
  aq_s    |-> U(ROne, DDiv(A1, T1)),  \* angle dimension per time: equivalent to a frequency
  liter   |-> U(<<1, 1000>>, Volume), m3      |-> U(ROne, Volume),
  mps     |-> U(ROne, Speed),         kmh     |-> U(<<5, 18>>, Speed),
  bit     |-> UX(ROne, D1, 1),        byte    |-> UX(R(8), D1, 1),       \* information, counted in bits
  bit_s   |-> UX(ROne, Freq, 1),      \* bit / second: not a frequency
  kelvin  |-> U(ROne, K1),            mK      |-> U(<<1, 1000>>, K1)      \* a quantity of one millikelvin
]

Vals == [ v1 |-> R(1), v2 |-> R(2), vm3 |-> R(-3), vh |-> <<1, 2>>, v75 |-> <<7, 5>>, v1000 |-> R(1000),
          vmil |-> <<1, 1000>>, v0 |-> RZero ]

-----------------------------------------------------------------------------
(* Arithmetic guards: TLC integers are 32 bit.                               *)
MaxInt == 2147483647
Mag(r) == MaxI(AbsI(r[1]), r[2])
MulOK(a, b) == Mag(a) <= MaxInt \div Mag(b)                 \* RMul(a, b) and RDiv(a, b) cannot overflow
AddOK(a, b) == MulOK(a, b) /\ Mag(a) * Mag(b) <= MaxInt \div 2

(* Conversion, from the statement.                                           *)
Convertible(q, u) == Equiv(q.d, u.d) /\ q.x = u.x
ConvertTo(q, u)   == RDiv(q.v, u.v)          \* the number n with n * u = q   (only if Convertible)
ToSI(q)           == q.v                     \* the SI unit of a dimension has value 1
TimesUnit(n, u)   == UX(RMul(n, u.v), u.d, u.x)    \* the quantity "n units"

KOffset == 273150000                         \* 273.15 in millionths of a degree
ToKelvin(c)   == c + KOffset
FromKelvin(k) == k - KOffset

-----------------------------------------------------------------------------
NoExpr == [op |-> "none"]
NoTemp == [t0 |-> 0, s0 |-> "none", scale |-> "none", v |-> 0, steps |-> 0, sh |-> 0, ops |-> <<>>]
NoCur  == [n |-> RZero, u |-> "none"]
NoStart == [val |-> "none", u |-> "none", k |-> 0]

Q0 == TimesUnit(Vals[start.val], Units[start.u])          \* the quantity a chain starts from

InitChain == /\ mode = "chain"
             /\ \E val \in ValueNames, u \in UnitNames, k \in ImagFactors \cup {0} :
                   /\ (k # 0 => val \in ComplexVals)
                   /\ start = [val |-> val, u |-> u, k |-> k]
                   /\ cur = [n |-> Vals[val], u |-> u]
                   /\ chain = <<u>>
             /\ err = FALSE /\ expr = NoExpr /\ temp = NoTemp
InitTemp == /\ mode = "temp"
            /\ \E t \in Temps, s \in {"C", "K"} :
                  temp = [t0 |-> t - 300000000, s0 |-> s, scale |-> s, v |-> t - 300000000, steps |-> 0,
                          sh |-> 0, ops |-> <<>>]
            /\ start = NoStart /\ cur = NoCur /\ chain = <<>> /\ err = FALSE /\ expr = NoExpr
Init == InitChain \/ InitTemp

\* convert the current representation to unit u2
Convert(u2) ==
  /\ mode = "chain" /\ ~err /\ expr = NoExpr /\ Len(chain) <= MaxChain
  /\ MulOK(cur.n, Units[cur.u].v)
  /\ LET q == TimesUnit(cur.n, Units[cur.u]) IN
       IF Convertible(q, Units[u2])
       THEN /\ MulOK(q.v, Units[u2].v)
            /\ cur' = [n |-> ConvertTo(q, Units[u2]), u |-> u2] /\ err' = FALSE
       ELSE /\ q.v # RZero                  \* a zero quantity has no dimension to speak of: not decided
            /\ err' = TRUE /\ cur' = cur    \* refused
  /\ chain' = Append(chain, u2)
  /\ UNCHANGED <<mode, start, expr, temp>>

\* an expression of the start quantity and a second quantity, evaluated on SI numbers
ExprDefined(op, a, b) ==
  CASE op \in {"mul"} -> MulOK(a.v, b.v)
    [] op = "div" -> b.v # RZero /\ MulOK(a.v, b.v)
    [] op \in {"add", "sub"} -> Same(a.d, b.d) /\ AddOK(a.v, b.v)
    [] op = "sq" -> MulOK(a.v, a.v)
    [] op = "scale" -> MulOK(a.v, b.v) /\ Dimless(b.d)
Meaning(op, a, b) ==                       \* the expression as a quantity
  CASE op = "mul" -> UX(RMul(a.v, b.v), DMul(a.d, b.d), a.x + b.x)
    [] op = "div" -> UX(RDiv(a.v, b.v), DDiv(a.d, b.d), a.x - b.x)
    [] op = "add" -> UX(RAdd(a.v, b.v), a.d, a.x)
    [] op = "sub" -> UX(RSub(a.v, b.v), a.d, a.x)
    [] op = "sq"  -> UX(RMul(a.v, a.v), DMul(a.d, a.d), 2 * a.x)
    [] op = "scale" -> UX(RMul(b.v, a.v), a.d, a.x)
Evaluate(op, x, y) ==                      \* the same arithmetic on the SI numbers x, y of the quantities
  CASE op = "mul" -> RMul(x, y) [] op = "div" -> RDiv(x, y) [] op = "add" -> RAdd(x, y)
    [] op = "sub" -> RSub(x, y) [] op = "sq" -> RMul(x, x) [] op = "scale" -> RMul(y, x)

\* Scaling both operands by a number c scales the value of the expression by c^Degree(op): the harness uses this
\* with c = 10^e to reach magnitudes (1e-30, 1e30) that 32-bit rationals cannot hold; Homogeneous checks it
\* with c = 2.
Degree(op) == CASE op \in {"mul", "sq", "scale"} -> 2 [] op \in {"add", "sub"} -> 1 [] op = "div" -> 0
Combine(op, val2, u2, e) ==
  /\ mode = "chain" /\ ~err /\ expr = NoExpr /\ Len(chain) = 1 /\ start.k = 0
  /\ (e # 0 => start.val \in ScaledVals)
  /\ (op = "sq" => val2 = start.val /\ u2 = start.u)          \* the square has one operand
  /\ MulOK(Vals[val2], Units[u2].v)
  /\ LET a == Q0   b == TimesUnit(Vals[val2], Units[u2]) IN
       /\ a.x = 0 /\ b.x = 0            \* evaluation to SI numbers: only for dimensions that have an SI unit
       /\ ExprDefined(op, a, b)
       /\ expr' = [op |-> op, b |-> [val |-> val2, u |-> u2], si |-> Evaluate(op, ToSI(a), ToSI(b)),
                   d |-> Meaning(op, a, b).d, e |-> e, e10 |-> e * Degree(op)]
  /\ UNCHANGED <<mode, start, cur, chain, err, temp>>

\* the Celsius helper for quantities: n kelvin |-> n - 273.15 degrees Celsius; anything that is not a
\* temperature is refused (a zero quantity has no dimension to speak of: not decided)
KOffsetR == <<5463, 20>>                                      \* 273.15
ToCelsius ==
  /\ mode = "chain" /\ ~err /\ expr = NoExpr /\ Len(chain) = 1 /\ start.k = 0
  /\ IF Equiv(Q0.d, K1) /\ Q0.x = 0
     THEN AddOK(Q0.v, KOffsetR) /\ expr' = [op |-> "celsius", ok |-> TRUE, c |-> RSub(Q0.v, KOffsetR)]
     ELSE Q0.v # RZero /\ expr' = [op |-> "celsius", ok |-> FALSE, c |-> RZero]
  /\ UNCHANGED <<mode, start, cur, chain, err, temp>>

\* One Celsius object is kept throughout a history: its value is converted to kelvin, a kelvin value is
\* converted back into it, and its value may be changed in place (by ShiftBy) between two conversions - a
\* conversion always concerns the value the object has now.
ShiftBy == 10000000                                           \* ten degrees
TempStep ==
  /\ mode = "temp" /\ temp.steps < MaxChain + 2
  /\ temp' = IF temp.scale = "C"
             THEN [temp EXCEPT !.scale = "K", !.v = ToKelvin(temp.v), !.steps = @ + 1, !.ops = Append(@, "conv")]
             ELSE [temp EXCEPT !.scale = "C", !.v = FromKelvin(temp.v), !.steps = @ + 1, !.ops = Append(@, "conv")]
  /\ UNCHANGED <<mode, start, cur, chain, err, expr>>
TempShift ==
  /\ mode = "temp" /\ temp.steps < MaxChain + 2 /\ temp.scale = "C" /\ temp.sh = 0
  /\ temp.steps >= 1                                         \* the object has been used before
  /\ temp' = [temp EXCEPT !.v = @ + ShiftBy, !.sh = 1, !.steps = @ + 1, !.ops = Append(@, "shift")]
  /\ UNCHANGED <<mode, start, cur, chain, err, expr>>

Next == \/ \E u2 \in UnitNames : Convert(u2)
        \/ \E op \in ExprOps, val2 \in ExprVals \cup {start.val}, u2 \in ExprUnits \cup {start.u},
              e \in {x - 40 : x \in Exps10} \cup {0} : Combine(op, val2, u2, e)
        \/ ToCelsius
        \/ TempStep \/ TempShift

Spec == Init /\ [][Next]_vars

-----------------------------------------------------------------------------
(* The property, as invariants of the machine.                               *)
InChain == mode = "chain" /\ expr = NoExpr

\* n times the unit equals the quantity, after any chain of conversions
ValuePreserved == InChain /\ ~err /\ MulOK(cur.n, Units[cur.u].v) => TimesUnit(cur.n, Units[cur.u]).v = Q0.v
\* a -> b -> c equals a -> c
Composition    == InChain /\ ~err /\ MulOK(Q0.v, Units[cur.u].v) => cur.n = ConvertTo(Q0, Units[cur.u])
\* back in the unit it was written in, the number is the original one
Inverse        == InChain /\ ~err /\ cur.u = start.u => cur.n = Vals[start.val]
\* in a unit whose SI value is one (the SI unit of the dimension) the number is the SI value
OwnSIUnit      == InChain /\ ~err /\ Units[cur.u].v = ROne => cur.n = ToSI(Q0)
\* refused exactly between inequivalent dimensions; a refusal ends the chain
RefusalExact   ==
  InChain => /\ err = (Len(chain) >= 2 /\ ~Convertible(Units[chain[Len(chain) - 1]], Units[chain[Len(chain)]]))
             /\ \A i \in 1..(Len(chain) - 2) : Convertible(Units[chain[i]], Units[chain[i + 1]])
\* information never converts to or from anything without it, whatever the other exponents are
ForeignBaseCounts == InChain /\ ~err => \A i \in 1..Len(chain) : Units[chain[i]].x = Units[chain[1]].x
\* conversion is linear: twice the quantity gives twice the number
Linear == InChain /\ ~err /\ MulOK(R(2), cur.n) /\ MulOK(R(2), Q0.v) /\ MulOK(RMul(R(2), Q0.v), Units[cur.u].v)
            => ConvertTo(UX(RMul(R(2), Q0.v), Q0.d, Q0.x), Units[cur.u]) = RMul(R(2), cur.n)
\* evaluating on SI numbers gives the SI value of the expression
EvaluationPreservesValue ==
  (expr # NoExpr /\ expr.op # "celsius") => LET b == TimesUnit(Vals[expr.b.val], Units[expr.b.u]) IN
                     /\ expr.si = ToSI(Meaning(expr.op, Q0, b))
                     /\ expr.d = Meaning(expr.op, Q0, b).d
\* the Celsius / kelvin helpers are mutual inverses, offset 273.15
TempInverse == mode = "temp" =>
  /\ (temp.scale = temp.s0 => temp.v = temp.t0 + temp.sh * ShiftBy)
  /\ (temp.scale # temp.s0 => temp.v = temp.sh * ShiftBy + (IF temp.s0 = "C" THEN temp.t0 + KOffset ELSE temp.t0 - KOffset))
  /\ FromKelvin(ToKelvin(temp.v)) = temp.v /\ ToKelvin(FromKelvin(temp.v)) = temp.v
Homogeneous ==
  (expr # NoExpr /\ expr.op # "celsius") =>
    LET x == ToSI(Q0)   y == ToSI(TimesUnit(Vals[expr.b.val], Units[expr.b.u]))
        c == IF Degree(expr.op) = 2 THEN R(4) ELSE IF Degree(expr.op) = 1 THEN R(2) ELSE ROne
    IN  (MulOK(R(2), x) /\ MulOK(R(2), y) /\ MulOK(RMul(R(2), x), RMul(R(2), y)) /\ AddOK(RMul(R(2), x), RMul(R(2), y))
         /\ MulOK(c, expr.si))
          => Evaluate(expr.op, RMul(R(2), x), RMul(R(2), y)) = RMul(c, expr.si)
\* the Celsius helper accepts exactly temperatures and is the inverse of adding the offset
CelsiusHelper == (expr # NoExpr /\ expr.op = "celsius") =>
  /\ expr.ok = (Equiv(Q0.d, K1) /\ Q0.x = 0)
  /\ (expr.ok => RAdd(expr.c, KOffsetR) = Q0.v)
\* a number that is handed out as a float must be the whole number: only real values qualify
FloatRepresentable == start.k = 0
TypeOK == /\ mode \in {"chain", "temp"}
          /\ mode = "chain" => IsRat(cur.n) /\ Len(chain) \in 1..(MaxChain + 1)
          /\ err \in BOOLEAN

-----------------------------------------------------------------------------
(* Emission for the replay harness.                                          *)
DimSeq(d) == <<d["L"], d["M"], d["T"], d["I"], d["K"], d["N"], d["J"], d["A"]>>
Emit ==
  /\ (InChain /\ Len(chain) >= 2) =>
        PrintT(ToJson([k |-> "chain", val |-> start.val, chain |-> chain, n |-> cur.n, err |-> err, si |-> Q0.v,
                       d |-> DimSeq(Q0.d), x |-> Q0.x, im |-> start.k, flt |-> FloatRepresentable]))
  /\ (mode = "chain" /\ expr # NoExpr /\ expr.op = "celsius") =>
        PrintT(ToJson([k |-> "celsius", a |-> start, ok |-> expr.ok, c |-> expr.c]))
  /\ (mode = "chain" /\ expr # NoExpr /\ expr.op # "celsius") =>
        PrintT(ToJson([k |-> "expr", op |-> expr.op, a |-> start, b |-> expr.b, si |-> expr.si, d |-> DimSeq(expr.d),
                       e |-> expr.e, e10 |-> expr.e10]))
  /\ (mode = "temp" /\ temp.steps >= 1) =>
        PrintT(ToJson([k |-> "temp", t0 |-> temp.t0, s0 |-> temp.s0, steps |-> temp.steps, scale |-> temp.scale,
                       v |-> temp.v, ops |-> temp.ops]))
=============================================================================
