-------------------------- MODULE VecAlgebraTrace --------------------------
(* code -> spec for C14.  The harness records, for every expression it had   *)
(* the real library evaluate or differentiate, the pair                      *)
(*     p = the expression as written (postfix program of VecVal)             *)
(*     q = the expression the library returned, compiled to the same alphabet *)
(* TLC evaluates BOTH with the operators of the specification (VecVal: the   *)
(* value domain of VecAlgebra) under every recorded assignment and decides:  *)
(*   mode "val"  : value(q) = value(p)                                       *)
(*   mode "diff" : value(q) = dual part of p  (q is the returned derivative; *)
(*                 its leaves <<"dvec", i>> stand for d/dt of leaf i)         *)
(* One line  <<"V", id, verdicts>>  is printed per record, verdicts[i] in    *)
(* {"eq", "ne", "un"} for assignment i ("un": a value left the exact         *)
(* domain - undecided, never an alarm).                                      *)
EXTENDS VecVal, Json, IOUtils

Data    == JsonDeserialize(IOEnv.TRACE_FILE)
Recs    == Data.recs
Assigns == Data.assigns

VARIABLE t
Init == t \in 1..Len(Recs)
Next == UNCHANGED t

Verdict(A, rec) ==
  LET vp == Eval(A, rec.p)
      vq == Eval(A, rec.q)
      l  == IF rec.mode = "diff" THEN DualOf(vp) ELSE ValOf(vp)
      r  == ValOf(vq)
  IN  IF IsU(l) \/ IsU(r) THEN "un" ELSE IF l = r THEN "eq" ELSE "ne"

Judge == PrintT(<<"V", Recs[t].id, [i \in 1..Len(Assigns) |-> Verdict(Assigns[i], Recs[t])]>>)
=============================================================================
