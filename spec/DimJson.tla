------------------------------ MODULE DimJson ------------------------------
(* Dimensions as they travel through JSON: a sequence of eight <<n, d>>      *)
(* pairs in the order L M T I K N J A (shared by the *Trace modules).        *)
EXTENDS Dims

DimFromSeq(s) == [b \in Base |->
  LET i == CASE b = "L" -> 1 [] b = "M" -> 2 [] b = "T" -> 3 [] b = "I" -> 4
             [] b = "K" -> 5 [] b = "N" -> 6 [] b = "J" -> 7 [] b = "A" -> 8
  IN <<s[i][1], s[i][2]>>]
RatFromSeq(s) == <<s[1], s[2]>>
=============================================================================
