--------------------------- MODULE FieldOpsTrace ---------------------------
(* C12, code -> spec.  Every record of the trace file is one observation of *)
(* the real operators:                                                      *)
(*   op    "grad" | "div" | "curl", or a composition of two operators of    *)
(*         the library applied one after the other: "divgrad", "curlgrad",  *)
(*         "curlcurl", "divcurl", "graddiv"                                 *)
(*   comps the field as the list of components that was GIVEN to the        *)
(*         library (0..3 for vector fields, 1 for a scalar field), each the *)
(*         term list << <<i,j,k>>, <<n,d>> >>* of its Cartesian polynomial  *)
(*   abs   <<v, k>>: the scalar field is comps[1] * |x_v|^k (FieldOps,     *)
(*         AbsLocal: TLC uses the polynomial of the half-space of pt);      *)
(*         <<0, 0>> for a plain polynomial field                            *)
(*   pt    the exact point <<x, y, z>> (rationals <<n, d>>)                 *)
(*   val   what the library returned there, as Cartesian components         *)
(*         (curvilinear results rotated back by the harness)                *)
(* TLC recomputes the value from the coefficient maps with the operators of *)
(* FieldOps (Pad, Grad, Div, Curl, PEval) and rejects every record that     *)
(* differs; the field of each record also becomes the state of FieldOps, so *)
(* the identities are checked on every recorded field as well.              *)
EXTENDS FieldOps, IOUtils

Trace == ndJsonDeserialize(IOEnv.TRACE_FILE)

VARIABLE l
tvars == <<kind, fld, terms, l>>

RatOf(x) == Norm(x[1], x[2])
PtOf(p)  == <<RatOf(p[1]), RatOf(p[2]), RatOf(p[3])>>

HasAbs(r)   == r.abs[1] # 0
CompsOf(r)  == [i \in 1..Len(r.comps) |->
                  IF HasAbs(r) THEN AbsLocal(PFromTerms(r.comps[i]), r.abs[1], r.abs[2], PtOf(r.pt))
                  ELSE PFromTerms(r.comps[i])]
Fits(r)     == /\ Len(r.comps) <= 3 /\ \A i \in 1..Len(r.comps) : TermsFit(r.comps[i])
               /\ HasAbs(r) => /\ r.op = "grad" /\ r.abs[1] \in Vars /\ r.abs[2] = 3
                               /\ PtOf(r.pt)[r.abs[1]] # RZero
                               /\ AbsFits(PFromTerms(r.comps[1]), r.abs[1], r.abs[2])

Expected(r) ==
  CASE r.op = "grad" -> VEval(Grad(CompsOf(r)[1]), PtOf(r.pt))
    [] r.op = "div"  -> <<PEval(Div(Pad(CompsOf(r))), PtOf(r.pt))>>
    [] r.op = "curl" -> VEval(Curl(Pad(CompsOf(r))), PtOf(r.pt))
    [] r.op = "divgrad"  -> <<PEval(Lap(CompsOf(r)[1]), PtOf(r.pt))>>
    [] r.op = "curlgrad" -> VEval(Curl(Grad(CompsOf(r)[1])), PtOf(r.pt))
    [] r.op = "curlcurl" -> VEval(Curl(Curl(Pad(CompsOf(r)))), PtOf(r.pt))
    [] r.op = "divcurl"  -> <<PEval(Div(Curl(Pad(CompsOf(r)))), PtOf(r.pt))>>
    [] r.op = "graddiv"  -> VEval(Grad(Div(Pad(CompsOf(r)))), PtOf(r.pt))

Observed(r) == [i \in 1..Len(r.val) |-> RatOf(r.val[i])]

ScalarOps == {"grad", "divgrad", "curlgrad"}
Accepts(r) == /\ r.op \in {"grad", "div", "curl", "divgrad", "curlgrad", "curlcurl", "divcurl", "graddiv"}
              /\ Fits(r)
              /\ Observed(r) = Expected(r)

KindOf(r) == IF r.op \in ScalarOps THEN "s" ELSE "v"
FldOf(r)  == IF r.op \in ScalarOps THEN <<CompsOf(r)[1]>> ELSE Pad(CompsOf(r))

TInit == /\ l = 1
         /\ kind = KindOf(Trace[1]) /\ fld = FldOf(Trace[1]) /\ terms = <<>>
TNext == /\ l < Len(Trace)
         /\ l' = l + 1
         /\ kind' = KindOf(Trace[l + 1]) /\ fld' = FldOf(Trace[l + 1]) /\ terms' = <<>>

\* total verdict per record: every rejected index is printed
Validate == Accepts(Trace[l]) \/ PrintT(<<"REJECT", l>>)
AllSeen  == TLCGet("stats").diameter = Len(Trace)
=============================================================================
