----------------------------- MODULE NameOrder -----------------------------
(* C03: the only channel from a creation / import history to the behaviour of *)
(* a module is the ORDER of the generated names (SYM<n>, FUN<n>, ...), which  *)
(* SymPy compares as strings (canonical argument order, solver pivoting, the   *)
(* order of the roots returned by solve()).  Names of one prefix compare like  *)
(* the decimal strings of their ids.  This module defines that order and the    *)
(* lemmas TLC checks about it (cfg: all k <= KMax, all blocks of n <= NMax      *)
(* consecutive ids):                                                            *)
(*                                                                              *)
(*   SameLength    ids with equally many digits are ordered numerically;        *)
(*   BlockLemma    inside a block of consecutive ids the name order is the       *)
(*                 numeric order rotated at the digit-count boundary (9/10,      *)
(*                 99/100, 999/1000, ...): the permutation is determined by       *)
(*                 BoundaryPos alone, so a block of n names has exactly n         *)
(*                 possible orders (boundary after 1..n-1 names, or none);        *)
(*   CrossLemma    an earlier id i and a later id j with more digits: j's name    *)
(*                 sorts first iff the leading digits of j form a number < i.     *)
(*                                                                              *)
(* BlockLemma justifies the finite set of canonical histories per module that    *)
(* the harness replays (boundary before / at every position inside / after the   *)
(* module's block).  CrossLemma shows what is NOT finite: the order between a     *)
(* module's names and much older names also depends on leading digits; the        *)
(* harness samples that with whole-catalogue orders and counter offsets.          *)
EXTENDS Naturals, Sequences, FiniteSets

RECURSIVE Digits(_)
Digits(n) == IF n < 10 THEN <<n>> ELSE Append(Digits(n \div 10), n % 10)
NDigits(n) == Len(Digits(n))

RECURSIVE LexLess(_, _)
LexLess(a, b) == IF a = <<>> THEN b # <<>>
                 ELSE IF b = <<>> THEN FALSE
                 ELSE IF Head(a) < Head(b) THEN TRUE
                 ELSE IF Head(a) > Head(b) THEN FALSE
                 ELSE LexLess(Tail(a), Tail(b))

\* the generated name of id i sorts before the generated name of id j (same prefix)
NameLess(i, j) == LexLess(Digits(i), Digits(j))

\* position (0 = first) of id k+i in the name order of the block k .. k+n-1
Rank(k, n, i) == Cardinality({j \in 0..(n - 1) : NameLess(k + j, k + i)})
Perm(k, n) == [i \in 0..(n - 1) |-> Rank(k, n, i)]

\* how many ids of the block come before the first id with more digits than k  (n: no boundary inside)
BoundaryPos(k, n) == IF \E j \in 0..(n - 1) : NDigits(k + j) > NDigits(k)
                     THEN CHOOSE j \in 0..(n - 1) : /\ NDigits(k + j) > NDigits(k)
                                                     /\ \A i \in 0..(j - 1) : NDigits(k + i) = NDigits(k)
                     ELSE n
\* numeric order rotated at the boundary: the longer names come first
CanonPerm(n, b) == [i \in 0..(n - 1) |-> IF b = n THEN i ELSE IF i < b THEN i + (n - b) ELSE i - b]

\* which element of the block is first in name order (what `solve(...)[0]` would pick among the block)
FirstInNameOrder(k, n) == CHOOSE i \in 0..(n - 1) : Rank(k, n, i) = 0

\* the number formed by the d leading digits of j
Leading(j, d) == LET ds == SubSeq(Digits(j), 1, d)
                     F[m \in 0..d] == IF m = 0 THEN 0 ELSE 10 * F[m - 1] + ds[m]
                 IN F[d]

=============================================================================
