---------------------------- MODULE SymbolsTrace ----------------------------
(* code -> spec for C09 / C03: validates recorded `next_id` events (hook H1)  *)
(* against the counter of Symbols.tla.                                        *)
(*                                                                            *)
(* The harness records every next_id event of a process.  Counters are per    *)
(* prefix and independent, so the recorded stream is split per prefix (order   *)
(* within a prefix preserved) and run-length encoded: a run [b, lo, hi] stands *)
(* for the consecutive events (b,lo), (b,lo+1), .., (b,hi).  The encoding is   *)
(* lossless for everything the specification talks about.                     *)
(*                                                                            *)
(* A recorded event is a legal step iff its id is FRESH for its prefix        *)
(* (Symbols!FreshRun): the statement of C09 requires distinct names, not      *)
(* "last + 1", so a library that skipped ids or used one global counter is     *)
(* accepted, while a repeated (base, id) - the only way two live objects can   *)
(* get the same generated name - is rejected at the first offending run.       *)
(*                                                                            *)
(* Batched: one initial state per recorded trace; total verdicts through the   *)
(* side-effect invariants Accepted / Stuck.                                    *)
EXTENDS Symbols, IOUtils

Traces == JsonDeserialize(IOEnv.TRACE_FILE).traces

VARIABLES t,      \* index of the trace being validated
          l,      \* next run
          used    \* runs accepted so far: set of <<base, lo, hi>>

tvars == <<t, l, used>>

Runs == Traces[t].runs

MaxI(a, b) == IF a >= b THEN a ELSE b

TraceInit == /\ Init                      \* the state of Symbols: counters at zero, nothing live
             /\ t \in DOMAIN Traces
             /\ l = 1
             /\ used = {}

\* the recorded run is a behaviour of the counter: non-empty, positive, and fresh
TraceNextId ==
  /\ l <= Len(Runs)
  /\ LET e == Runs[l] IN
       /\ e.lo >= 1 /\ e.hi >= e.lo
       /\ FreshRun({<<u[2], u[3]>> : u \in {v \in used : v[1] = e.b}}, e.lo, e.hi)
       /\ used' = used \cup {<<e.b, e.lo, e.hi>>}
       \* the counter of Symbols follows (a prefix the model does not know is not an alarm)
       /\ ids' = [p \in Prefix |-> IF p = e.b THEN MaxI(ids[p], e.hi) ELSE ids[p]]
  /\ l' = l + 1
  /\ UNCHANGED <<t, objs, hist>>

TraceNext == TraceNextId

\* NoAlias on the generated NAMES: the harness lists the events of prefixes of which one is another one
\* followed by digits (the only way two different (prefix, id) pairs can give one name); TLC builds the names
Named == Traces[t].named
NameClash == l = 1 =>
  \A i, j \in DOMAIN Named :
     (i < j /\ GenName(Named[i].b, Named[i].id) = GenName(Named[j].b, Named[j].id)) =>
        PrintT(<<"CLASH", Traces[t].tid, i, j>>) /\ TRUE

Accepted == (l = Len(Runs) + 1) => PrintT(<<"ACCEPT", Traces[t].tid>>)
Stuck    == (l <= Len(Runs) /\ ~ENABLED TraceNext) =>
               PrintT(<<"STUCK", Traces[t].tid, l, Runs[l].b, Runs[l].lo, Runs[l].hi>>)
=============================================================================
