------------------------------- MODULE Rebase -------------------------------
(* C11: re-expressing a vector / a scalar field in another coordinate system *)
(* does not change the geometric object.                                     *)
(*                                                                          *)
(* The state IS the geometric object, as exact Cartesian data, plus the      *)
(* representation the library currently holds it in:                         *)
(*   obj = "vector": a, b  Cartesian components of two vectors (integers),   *)
(*   obj = "field" : a     a physical point (Cartesian coordinates),         *)
(*                   b     exponents <<i, j, k>> of the Cartesian monomial   *)
(*                         x^i y^j z^k the field is,                         *)
(*   repr \in {"cart", "cyl", "sph"}.                                        *)
(* Actions: Rebase(to) - allowed exactly between Cartesian and cylindrical   *)
(* and between Cartesian and spherical (and onto the current system);        *)
(* cylindrical <-> spherical is REFUSED (state unchanged, logged);           *)
(* Scale(k) multiplies the Cartesian data of vector a by a rational k that   *)
(* may be NEGATIVE or fractional (a = num / den, |a| = magn / den are kept    *)
(* as integers over a common denominator).  Dot product, magnitude (which is  *)
(* never negative), unit vector, projection onto b and the value of the       *)
(* field at the physical point are functions of the Cartesian data alone, so  *)
(* they cannot depend on repr.                                                *)
(* `path` is a history variable on purpose: the behaviours are the test      *)
(* inputs replayed into the real Vector.rebase / ScalarField.rebase /        *)
(* scale_vector / dot_vectors / vector_magnitude (harness/c11.py), with the  *)
(* expected Cartesian data after every step.                                 *)
EXTENDS Rat, Sequences, TLC, Json, FiniteSets

CONSTANTS MaxDepth,      \* length of the emitted paths
          Object,        \* "vector" or "field"
          PointIdx,      \* subset of DOMAIN PythagoreanPoints: the base points in play
          Octants,       \* subset of 1..8: sign patterns applied to the base points
          PartnerIdx,    \* the second vector b is the image of this base point in the octant after a's (vector mode)
          MaxDegree,     \* field mode: all monomials x^i y^j z^k with i + j + k <= MaxDegree
          Scales,        \* subset of DOMAIN ScaleTable: the factors offered to Scale; {} disables the action
          AngleFields,   \* BOOLEAN: field mode also takes the azimuth-dependent fields (where their value is rational)
          Rotated        \* BOOLEAN: vector mode also offers "rot", a Cartesian system ROTATED about z against the parent

\* a = num / den: the Cartesian components of vector a (field mode: the physical point, den = 1);
\* magn / den = |a| (vector mode; Pythagorean points have integer length)
VARIABLES obj, a, den, magn, b, repr, path, start
vars == <<obj, a, den, magn, b, repr, path, start>>

Reprs == {"cart", "cyl", "sph"}

\* scale factors <<numerator, denominator>>: positive, negative and fractional
ScaleTable == << <<2, 1>>, <<-2, 1>>, <<1, 2>>, <<-1, 2>>, <<3, 1>>, <<-1, 1>>, <<-3, 1>> >>

\* x^2 + y^2 and x^2 + y^2 + z^2 are perfect squares: every trigonometric value of the cylindrical and
\* spherical angles of these points (and of their sign variants) is rational, so the real library computes
\* exactly.  Entries 13..15 have trailing zero components and are given to the library as vectors with FEWER than
\* three components (in the Cartesian and in the cylindrical system; a missing component is a zero component).
\* Entry 16 lies ON the axis x = y = 0: it is the meaning of a spherical vector given without its polar angle
\* ([r, theta] = [r, theta, 0]); the statement excludes re-expressing it INTO a curvilinear system (singular), so
\* only Rebase to Cartesian is offered for it.  Entry 17 and 8 have a rational half azimuth (AngleFields).
PythagoreanPoints == << <<3, 4, 12>>, <<12, 9, 8>>, <<12, 16, 15>>, <<9, 12, 20>>, <<5, 12, 84>>, <<8, 15, 144>>,
                        <<15, 20, 60>>, <<7, 24, 60>>, <<4, 3, 12>>, <<9, 12, 8>>, <<16, 12, 15>>, <<12, 9, 20>>,
                        <<3, 4, 0>>, <<15, 8, 0>>, <<5, 0, 0>>, <<0, 0, 5>>, <<119, 120, 1092>> >>
BasePoints == {PythagoreanPoints[i] : i \in PointIdx}
Partner    == PythagoreanPoints[PartnerIdx]
Monomials  == {e \in [1..3 -> 0..MaxDegree] : e[1] + e[2] + e[3] <= MaxDegree}
SignTable == << <<1, 1, 1>>, <<-1, 1, 1>>, <<1, -1, 1>>, <<-1, -1, 1>>,
                <<1, 1, -1>>, <<-1, 1, -1>>, <<1, -1, -1>>, <<-1, -1, -1>> >>
Signed(p, o) == <<SignTable[o][1] * p[1], SignTable[o][2] * p[2], SignTable[o][3] * p[3]>>
Points == {Signed(p, o) : p \in BasePoints, o \in Octants}

\* "rot": a second Cartesian system, turned about the z axis by the angle whose cosine is 3/5 and sine 4/5
\* (coordinates_rotate of the parent Cartesian system).  A vector of any system may be re-expressed in it; the
\* object does not change.  From "rot" only "cart" and "rot" are offered (rot -> curvilinear is not covered).
AllReprs == Reprs \cup {"rot"}

\* the transformations the library offers; everything else must be refused
Allowed(from, to) == from = to \/ from = "cart" \/ to = "cart" \/ to = "rot"

-----------------------------------------------------------------------------
(* functions of the geometric object (never of repr)                         *)
Dot3(p, q)  == p[1] * q[1] + p[2] * q[2] + p[3] * q[3]
MagSq3(p)   == Dot3(p, p)
Scale3(k, p) == <<k * p[1], k * p[2], k * p[3]>>
MonoValue(p, e) == IPow(p[1], e[1]) * IPow(p[2], e[2]) * IPow(p[3], e[3])
OnAxis(p)   == p[1] = 0 /\ p[2] = 0

\* Fields that depend on the AZIMUTH theta = atan2(y, x) in (-pi, pi] itself, not only on its sine and cosine
\* (they see an error in the branch of the angle, e.g. atan(y/x) instead of atan2(y, x), which no polynomial
\* in x, y, z does).  In cylindrical coordinates (rho, theta, z):
\*     HalfSinField = rho sin(theta/2) + z        HalfCosField = rho cos(theta/2) - z
\* with sin(theta/2) = sign(y) sqrt((rho - x) / (2 rho)), cos(theta/2) = sqrt((rho + x) / (2 rho)) >= 0.
\* They are offered at the points where these roots are rational.
HalfSinField == <<-1, 0, 0>>
HalfCosField == <<-2, 0, 0>>
Rho(p)     == ISqrt(p[1] * p[1] + p[2] * p[2])
HalfDefined(p) == /\ p[2] # 0 /\ IsSquareI(p[1] * p[1] + p[2] * p[2])
                  /\ IsSquareR(Norm(Rho(p) - p[1], 2 * Rho(p))) /\ IsSquareR(Norm(Rho(p) + p[1], 2 * Rho(p)))
HalfSin(p) == LET r == RSqrt(Norm(Rho(p) - p[1], 2 * Rho(p))) IN IF p[2] < 0 THEN RNeg(r) ELSE r
HalfCos(p) == RSqrt(Norm(Rho(p) + p[1], 2 * Rho(p)))
FieldValue(p, e) ==
  IF e = HalfSinField THEN RAdd(RMul(R(Rho(p)), HalfSin(p)), R(p[3]))
  ELSE IF e = HalfCosField THEN RSub(RMul(R(Rho(p)), HalfCos(p)), R(p[3]))
  ELSE R(MonoValue(p, e))
Length(p)   == CHOOSE r \in 0..500 : r * r = MagSq3(p)          \* of a Pythagorean point

\* what must be observable of the object (aa / dd, |.| = mm / dd, bb) held in representation rr
\* (rationals as normalised <<n, d>>)
ObsAt(aa, dd, mm, bb, rr) ==
  IF obj = "vector"
  THEN [a    |-> [i \in 1..3 |-> Norm(aa[i], dd)],
        b    |-> bb,
        dot  |-> Norm(Dot3(aa, bb), dd),                          \* a . b
        msq  |-> Norm(MagSq3(aa), dd * dd),                       \* |a|^2
        mag  |-> Norm(mm, dd),                                    \* |a| >= 0 whatever the sign of the scale factors
        unit |-> [i \in 1..3 |-> Norm(aa[i], mm)],                \* a / |a|
        proj |-> [i \in 1..3 |-> Norm(Dot3(aa, bb) * bb[i], dd * MagSq3(bb))]]   \* (a.b / b.b) b
  ELSE [value |-> FieldValue(aa, bb),
        \* applying the field to a point of kind k: the value, or refused when k is not the field's system
        apply |-> [k \in Reprs |-> IF k = rr THEN "value" ELSE "refused"]]
Observation == ObsAt(a, den, magn, b, repr)

Step(act, arg, ok, obs) == [act |-> act, arg |-> arg, ok |-> ok, repr |-> repr', obs |-> obs]

-----------------------------------------------------------------------------
Init == /\ obj = Object
        /\ repr \in Reprs
        /\ path = <<>>
        /\ den = 1
        /\ \E p \in BasePoints, o \in Octants :
             /\ a = Signed(p, o)
             /\ IF Object = "vector" THEN b = Signed(Partner, (o % 8) + 1) /\ magn = Length(p)
                                     ELSE /\ magn = 0
                                          /\ b \in Monomials \cup (IF AngleFields /\ HalfDefined(a)
                                                                   THEN {HalfSinField, HalfCosField} ELSE {})
        /\ (OnAxis(a) => repr \in {"cart", "sph"})         \* no cylindrical description on the axis
        /\ start = [repr |-> repr, a |-> a, b |-> b, obs |-> Observation]

Rebase(to) ==
  /\ Len(path) < MaxDepth
  /\ (OnAxis(a) => to \in {"cart", "rot", repr})  \* into a system where the vector is singular: not covered
  /\ (to = "rot" => Rotated /\ obj = "vector")
  /\ (repr = "rot" => to \in {"cart", "rot"})
  /\ UNCHANGED <<obj, a, den, magn, b, start>>    \* the geometric object is not touched
  /\ IF Allowed(repr, to) THEN repr' = to ELSE repr' = repr
  /\ path' = Append(path, Step("rebase", to, Allowed(repr, to),
                                ObsAt(a, den, magn, b, IF Allowed(repr, to) THEN to ELSE repr)))

Scale(i) ==
  LET k == ScaleTable[i] IN
  /\ obj = "vector" /\ Len(path) < MaxDepth
  /\ a' = Scale3(k[1], a) /\ den' = k[2] * den /\ magn' = AbsI(k[1]) * magn
  /\ UNCHANGED <<obj, b, repr, start>>
  /\ path' = Append(path, Step("scale", ToString(k[1]) \o "/" \o ToString(k[2]), TRUE,
                                ObsAt(Scale3(k[1], a), k[2] * den, AbsI(k[1]) * magn, b, repr)))

Next == (\E to \in AllReprs : Rebase(to)) \/ (\E i \in Scales : Scale(i))
Spec == Init /\ [][Next]_vars

-----------------------------------------------------------------------------
(* Properties of the model.                                                  *)
TypeOK == /\ obj \in {"vector", "field"} /\ repr \in AllReprs /\ Len(path) <= MaxDepth
          /\ (repr = "rot" => Rotated /\ obj = "vector")
          /\ \A i \in 1..3 : a[i] \in Int /\ b[i] \in Int
          /\ den \in Nat \ {0} /\ magn \in Nat

LastIsRebase == path' # path /\ path'[Len(path')].act = "rebase"
\* re-expression never changes the geometric object, hence no observation
\* (the value of a field is a function of (a, b) alone by construction; TLC cannot prime the CHOOSE inside it)
RebasePreservesObject == [][LastIsRebase => /\ a' = a /\ den' = den /\ magn' = magn /\ b' = b
                                            /\ (obj = "vector" => Observation' = Observation)
                                            /\ (obj = "field" => path'[Len(path')].obs.value = Observation.value)]_vars
\* a refused transformation changes nothing, and cylindrical <-> spherical is never answered
RefusalIsInert == [][(path' # path /\ ~path'[Len(path')].ok) => (repr' = repr /\ a' = a /\ den' = den /\ b' = b)]_vars
NoDirectCylSph == [][~(repr = "cyl" /\ repr' = "sph") /\ ~(repr = "sph" /\ repr' = "cyl")]_vars
\* scaling is linear in the Cartesian data: the dot product scales by k, the magnitude by |k|
ScaleIsLinear == [][(path' # path /\ path'[Len(path')].act = "scale") =>
                      \E i \in Scales : LET k == ScaleTable[i] IN
                         /\ Dot3(a', b') = k[1] * Dot3(a, b) /\ den' = k[2] * den
                         /\ magn' = AbsI(k[1]) * magn]_vars
\* the magnitude is the non-negative root of a . a, and the unit vector has length one
MagnitudeIsNorm == obj = "vector" => magn > 0 /\ magn * magn = MagSq3(a)
\* a field refuses exactly the points of the other two kinds
FieldAppliesToOwnPoints ==
  obj = "field" => \A k \in Reprs : (Observation.apply[k] = "value") = (k = repr)
\* points are away from the coordinate singularities (x = y = 0) and all numbers stay far below 2^31
AwayFromAxis == OnAxis(a) => repr \in {"cart", "sph", "rot"} /\ obj = "vector"
Small32 == /\ \A i \in 1..3 : AbsI(a[i]) < 20000 /\ AbsI(b[i]) < 200
           /\ den <= 64

-----------------------------------------------------------------------------
(* Emission of the maximal paths (spec -> code).                             *)
\* every state once: the actions that lead to it and the expected observation after the last one (the harness
\* rebuilds the tree of behaviours from these; the states with Len(path) = MaxDepth are the maximal behaviours)
Emit == path # <<>> => PrintT(ToJson([obj |-> obj, start |-> start,
                                      acts |-> [i \in DOMAIN path |-> <<path[i].act, path[i].arg>>],
                                      last |-> path[Len(path)]]))
=============================================================================
