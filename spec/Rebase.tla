------------------------------- MODULE Rebase -------------------------------
(* C11: re-expressing a vector / a scalar field in another coordinate system *)
(* does not change the geometric object.                                     *)
(*                                                                          *)
(* The state IS the geometric object, as exact Cartesian data, plus the      *)
(* representation the library currently holds it in:                         *)
(*   obj = "vector": a, b  Cartesian components of two vectors (integers),   *)
(*   obj = "field" : a     a physical point (Cartesian coordinates),         *)
(*                   b     exponents <<i, j, k>> of the Cartesian monomial   *)
(*                         x^i y^j z^k the field is,                         *)
(*   repr \in {"cart", "cyl", "sph"}.                                        *)
(* Actions: Rebase(to) - allowed exactly between Cartesian and cylindrical   *)
(* and between Cartesian and spherical (and onto the current system);        *)
(* cylindrical <-> spherical is REFUSED (state unchanged, logged);           *)
(* Scale(k) multiplies the Cartesian data of vector a.  Dot product,         *)
(* squared magnitude and the value of the field at the physical point are    *)
(* functions of the Cartesian data alone, so they cannot depend on repr.     *)
(* `path` is a history variable on purpose: the behaviours are the test      *)
(* inputs replayed into the real Vector.rebase / ScalarField.rebase /        *)
(* scale_vector / dot_vectors / vector_magnitude (harness/c11.py), with the  *)
(* expected Cartesian data after every step.                                 *)
EXTENDS Rat, Sequences, TLC, Json, FiniteSets

CONSTANTS MaxDepth,      \* length of the emitted paths
          Object,        \* "vector" or "field"
          PointIdx,      \* subset of DOMAIN PythagoreanPoints: the base points in play
          Octants,       \* subset of 1..8: sign patterns applied to the base points
          PartnerIdx,    \* the second vector b is the image of this base point in the octant after a's (vector mode)
          MaxDegree,     \* field mode: all monomials x^i y^j z^k with i + j + k <= MaxDegree
          Scales         \* set of positive integers for Scale(k); {} disables the action

VARIABLES obj, a, b, repr, path, start
vars == <<obj, a, b, repr, path, start>>

Reprs == {"cart", "cyl", "sph"}

\* x^2 + y^2 and x^2 + y^2 + z^2 are perfect squares: every trigonometric value of the cylindrical and
\* spherical angles of these points (and of their sign variants) is rational, so the real library computes
\* exactly.  None lies on the axis x = y = 0.  (The same table is harness/geom.py BASE_POINTS; the last two
\* lie in the plane z = 0 and are given to the library as two-component vectors.)
PythagoreanPoints == << <<3, 4, 12>>, <<12, 9, 8>>, <<12, 16, 15>>, <<9, 12, 20>>, <<5, 12, 84>>, <<8, 15, 144>>,
                        <<15, 20, 60>>, <<7, 24, 60>>, <<4, 3, 12>>, <<9, 12, 8>>, <<16, 12, 15>>, <<12, 9, 20>>,
                        <<3, 4, 0>>, <<15, 8, 0>> >>
BasePoints == {PythagoreanPoints[i] : i \in PointIdx}
Partner    == PythagoreanPoints[PartnerIdx]
Monomials  == {e \in [1..3 -> 0..MaxDegree] : e[1] + e[2] + e[3] <= MaxDegree}
SignTable == << <<1, 1, 1>>, <<-1, 1, 1>>, <<1, -1, 1>>, <<-1, -1, 1>>,
                <<1, 1, -1>>, <<-1, 1, -1>>, <<1, -1, -1>>, <<-1, -1, -1>> >>
Signed(p, o) == <<SignTable[o][1] * p[1], SignTable[o][2] * p[2], SignTable[o][3] * p[3]>>
Points == {Signed(p, o) : p \in BasePoints, o \in Octants}

\* the transformations the library offers; everything else must be refused
Allowed(from, to) == from = to \/ from = "cart" \/ to = "cart"

-----------------------------------------------------------------------------
(* functions of the geometric object (never of repr)                         *)
Dot3(p, q)  == p[1] * q[1] + p[2] * q[2] + p[3] * q[3]
MagSq3(p)   == Dot3(p, p)
Scale3(k, p) == <<k * p[1], k * p[2], k * p[3]>>
MonoValue(p, e) == IPow(p[1], e[1]) * IPow(p[2], e[2]) * IPow(p[3], e[3])

\* what must be observable in the current state
Observation ==
  IF obj = "vector" THEN [a |-> a, b |-> b, dot |-> Dot3(a, b), msq |-> MagSq3(a)]
  ELSE [value |-> MonoValue(a, b),
        \* applying the field to a point of kind k: the value, or refused when k is not the field's system
        apply |-> [k \in Reprs |-> IF k = repr THEN "value" ELSE "refused"]]

Step(act, arg, ok) == [act |-> act, arg |-> arg, ok |-> ok, repr |-> repr', obs |-> Observation']

-----------------------------------------------------------------------------
Init == /\ obj = Object
        /\ repr \in Reprs
        /\ path = <<>>
        /\ \E p \in BasePoints, o \in Octants :
             /\ a = Signed(p, o)
             /\ IF Object = "vector" THEN b = Signed(Partner, (o % 8) + 1) ELSE b \in Monomials
        /\ start = [repr |-> repr, a |-> a, b |-> b, obs |-> Observation]

Rebase(to) ==
  /\ Len(path) < MaxDepth
  /\ UNCHANGED <<obj, a, b, start>>                \* the geometric object is not touched
  /\ IF Allowed(repr, to) THEN repr' = to ELSE repr' = repr
  /\ path' = Append(path, Step("rebase", to, Allowed(repr, to)))

Scale(k) ==
  /\ obj = "vector" /\ Len(path) < MaxDepth
  /\ a' = Scale3(k, a) /\ UNCHANGED <<obj, b, repr, start>>
  /\ path' = Append(path, Step("scale", ToString(k), TRUE))

Next == (\E to \in Reprs : Rebase(to)) \/ (\E k \in Scales : Scale(k))
Spec == Init /\ [][Next]_vars

-----------------------------------------------------------------------------
(* Properties of the model.                                                  *)
TypeOK == /\ obj \in {"vector", "field"} /\ repr \in Reprs /\ Len(path) <= MaxDepth
          /\ \A i \in 1..3 : a[i] \in Int /\ b[i] \in Int

LastIsRebase == path' # path /\ path'[Len(path')].act = "rebase"
\* re-expression never changes the geometric object, hence no observation
Geo == IF obj = "vector" THEN Observation ELSE Observation.value
RebasePreservesObject == [][LastIsRebase => (a' = a /\ b' = b /\ Geo' = Geo)]_vars
\* a refused transformation changes nothing, and cylindrical <-> spherical is never answered
RefusalIsInert == [][(path' # path /\ ~path'[Len(path')].ok) => (repr' = repr /\ a' = a /\ b' = b)]_vars
NoDirectCylSph == [][~(repr = "cyl" /\ repr' = "sph") /\ ~(repr = "sph" /\ repr' = "cyl")]_vars
\* the values are those of the Cartesian data: symmetric, bilinear in the scale factor
ScaleIsLinear == [][(path' # path /\ path'[Len(path')].act = "scale") =>
                      \E k \in Scales : Dot3(a', b') = k * Dot3(a, b) /\ MagSq3(a') = k * k * MagSq3(a)]_vars
\* a field refuses exactly the points of the other two kinds
FieldAppliesToOwnPoints ==
  obj = "field" => \A k \in Reprs : (Observation.apply[k] = "value") = (k = repr)
\* points are away from the coordinate singularities (x = y = 0) and all numbers stay far below 2^31
AwayFromAxis == a[1] # 0 \/ a[2] # 0
Small32 == \A i \in 1..3 : AbsI(a[i]) < 30000 /\ AbsI(b[i]) < 30000

-----------------------------------------------------------------------------
(* Emission of the maximal paths (spec -> code).                             *)
Emit == Len(path) = MaxDepth => PrintT(ToJson([obj |-> obj, start |-> start, path |-> path]))
=============================================================================
