------------------------- MODULE HomogeneityTrace -------------------------
(* code -> spec for C01: every published equation of the catalogue, compiled *)
(* by the harness to a postfix token stream (only the leaves' declared       *)
(* dimensions come from the library), must be a behaviour of Homogeneity.    *)
(* All traces are validated in one TLC run: one initial state per trace.     *)
(* Verdicts are total: every trace ends in exactly one ACCEPT or STUCK line. *)
EXTENDS Homogeneity, Json, IOUtils

Traces == JsonDeserialize(IOEnv.TRACE_FILE)

VARIABLES t, l, und
tvars == <<t, l, und, stack, prog>>

BaseSeq == <<"L", "M", "T", "I", "K", "N", "J", "A">>
DimOf(seq) == [k \in Base |-> seq[CHOOSE i \in 1..8 : BaseSeq[i] = k]]
Tok(j) == [op |-> j.op, n |-> j.n, d |-> DimOf(j.d), a |-> j.a, hn |-> j.hn, v |-> j.v, lt |-> j.lt]

Ev == Traces[t].ev
Cur == Tok(Ev[l])

TInit == /\ t \in 1..Len(Traces) /\ l = 1 /\ stack = <<>> /\ prog = <<>> /\ und = FALSE

TStep == /\ l <= Len(Ev)
         /\ CanStep(Cur, stack)
         /\ stack' = StepStack(Cur, stack)
         /\ und' = (und \/ ~Decided(Cur, TopN(stack, Cur.n)))
         /\ l' = l + 1
         /\ UNCHANGED <<t, prog>>

TSpec == TInit /\ [][TStep]_tvars

Accepted == (l = Len(Ev) + 1) =>
              PrintT(ToJson(<<IF Len(stack) = 1 THEN "ACCEPT" ELSE "BADSHAPE", Traces[t].tid, und>>))
Stuck == (l <= Len(Ev) /\ ~CanStep(Cur, stack)) =>
              PrintT(ToJson(<<"STUCK", Traces[t].tid, l, Cur.op,
                              IF Len(stack) >= Cur.n /\ Cur.op \in Ops THEN "dimension" ELSE "shape">>))
=============================================================================
