------------------------------- MODULE Poly -------------------------------
(* Polynomials in x, y, z with exact rational coefficients (C12, C13).      *)
(*                                                                          *)
(* A polynomial is its coefficient map  [Exps -> Rat]  where an exponent    *)
(* e = <<i, j, k>> stands for the monomial x^i y^j z^k and every variable   *)
(* has exponent at most D.  Everything here is the textbook definition of   *)
(* the operation on coefficient maps:                                       *)
(*   d/dx_v (c x^e)      = c e_v x^(e - 1_v)                                *)
(*   int_lo^hi t^n dt    = (hi^(n+1) - lo^(n+1)) / (n+1)                    *)
(*   (x + c)^m           = sum_i C(m, i) c^(m-i) x^i                        *)
(* TLC integers are 32 bit (an overflow aborts TLC, it never wraps): the    *)
(* harness keeps degrees <= 4, coefficients and points small.               *)
EXTENDS Rat, Integers, Sequences, FiniteSets, FiniteSetsExt

CONSTANT D        \* maximal exponent of each variable

Vars == 1..3
Exps == (0..D) \X (0..D) \X (0..D)

PZero        == [e \in Exps |-> RZero]
PMono(e0, c) == [e \in Exps |-> IF e = e0 THEN c ELSE RZero]
PConst(c)    == PMono(<<0, 0, 0>>, c)
PAdd(p, q)   == [e \in Exps |-> RAdd(p[e], q[e])]
PNeg(p)      == [e \in Exps |-> RNeg(p[e])]
PSub(p, q)   == [e \in Exps |-> RSub(p[e], q[e])]
PScale(c, p) == [e \in Exps |-> RMul(c, p[e])]

\* the identity; comparing forces TLC to tabulate a lazily represented function once (speed only)
PForce(p) == IF p = PZero THEN PZero ELSE p

IsPoly(p) == /\ DOMAIN p = Exps
             /\ \A e \in Exps : IsRat(p[e])

Supp(p)   == {e \in Exps : p[e] # RZero}
TotDeg(e) == e[1] + e[2] + e[3]
Deg(p)    == IF Supp(p) = {} THEN 0 ELSE Max({TotDeg(e) : e \in Supp(p)})

Inc(e, v) == [e EXCEPT ![v] = @ + 1]
EAdd(e, m) == <<e[1] + m[1], e[2] + m[2], e[3] + m[3]>>
ESub(e, m) == <<e[1] - m[1], e[2] - m[2], e[3] - m[3]>>
EGeq(e, m) == \A v \in Vars : e[v] >= m[v]

\* partial derivative with respect to variable v
PDiff(p, v) == [e \in Exps |-> IF e[v] < D THEN RMul(R(e[v] + 1), p[Inc(e, v)]) ELSE RZero]

\* product with the monomial x^m (defined while nothing is pushed beyond D)
MulFits(p, m)  == \A e \in Supp(p) : \A v \in Vars : e[v] + m[v] <= D
PMulMono(p, m) == [e \in Exps |-> IF EGeq(e, m) THEN p[ESub(e, m)] ELSE RZero]

\* (PMul, PPow, PSubstZ are defined after RSum below)
\* sum of term(e) over a set of exponents
RSum(term(_), S) == FoldSet(LAMBDA e, acc : RAdd(acc, term(e)), RZero, S)

RPow(a, k)    == RPowInt(a, k)                           \* k >= 0
MonoAt(e, pt) == RMul(RMul(RPow(pt[1], e[1]), RPow(pt[2], e[2])), RPow(pt[3], e[3]))

\* value at the rational point pt = <<x, y, z>>
PEval(p, pt) == RSum(LAMBDA e : RMul(p[e], MonoAt(e, pt)), Supp(p))

\* int_lo^hi t^n dt   (antisymmetric in lo, hi: reversing the direction negates)
Int1(n, lo, hi) == RDiv(RSub(RPow(hi, n + 1), RPow(lo, n + 1)), R(n + 1))

\* integral over the box [lo1, hi1] x [lo2, hi2] x [lo3, hi3]
PIntBox(p, lo, hi) ==
  RSum(LAMBDA e : RMul(p[e], RMul(RMul(Int1(e[1], lo[1], hi[1]), Int1(e[2], lo[2], hi[2])),
                                   Int1(e[3], lo[3], hi[3]))), Supp(p))

\* p with variable v fixed at val: a polynomial that does not depend on x_v
PRestrict(p, v, val) ==
  [e \in Exps |-> IF e[v] # 0 THEN RZero
                  ELSE RSum(LAMBDA m : RMul(p[m], RPow(val, m[v])),
                            {m \in Supp(p) : \A w \in Vars \ {v} : m[w] = e[w]})]

RECURSIVE Fact(_)
Fact(n) == IF n <= 1 THEN 1 ELSE n * Fact(n - 1)
Binom(n, k) == Fact(n) \div (Fact(k) * Fact(n - k))

\* q(x) = p(x + c): the polynomial seen from an origin moved to c
PShift(p, c) ==
  [e \in Exps |->
     RSum(LAMBDA m : RMul(p[m], RMul(RMul(RMul(R(Binom(m[1], e[1])), RPow(c[1], m[1] - e[1])),
                                           RMul(R(Binom(m[2], e[2])), RPow(c[2], m[2] - e[2]))),
                                      RMul(R(Binom(m[3], e[3])), RPow(c[3], m[3] - e[3])))),
          {m \in Supp(p) : EGeq(m, e)})]

\* product of two polynomials (defined while no exponent exceeds D), powers, and substitution z := g(x, y)
DegV(p, v)    == IF Supp(p) = {} THEN 0 ELSE Max({e[v] : e \in Supp(p)})
MulSafe(p, q) == \A v \in Vars : DegV(p, v) + DegV(q, v) <= D
PMul(p, q)    == LET pp == PForce(p)  qq == PForce(q)  S == Supp(pp) IN
                 PForce([e \in Exps |-> RSum(LAMBDA m : RMul(pp[m], qq[ESub(e, m)]), {m \in S : EGeq(e, m)})])
RECURSIVE PPow(_, _)
PPow(g, k)    == IF k = 0 THEN PConst(ROne) ELSE PMul(g, PPow(g, k - 1))
SubstSafe(p, g) == \A e \in Supp(p) : \A v \in Vars : (IF v = 3 THEN 0 ELSE e[v]) + e[3] * DegV(g, v) <= D
PSubstZ(p, g) ==            \* p(x, y, g(x, y)); g does not depend on z
  LET pp == PForce(p)  S == Supp(pp)
      pw == [k \in 0..D |-> IF \E e \in S : e[3] = k THEN PPow(g, k) ELSE PZero] IN
  PForce([e \in Exps |-> RSum(LAMBDA m : RMul(pp[m], IF EGeq(e, <<m[1], m[2], 0>>)
                                                      THEN pw[m[3]][ESub(e, <<m[1], m[2], 0>>)] ELSE RZero), S)])

\* a polynomial from a list of terms << <<i, j, k>>, <<n, d>> >> (JSON traces, emitted cases)
RECURSIVE PFromTerms(_)
PFromTerms(ts) == IF ts = <<>> THEN PZero
                  ELSE PAdd(PMono(<<Head(ts)[1][1], Head(ts)[1][2], Head(ts)[1][3]>>,
                                  Norm(Head(ts)[2][1], Head(ts)[2][2])), PFromTerms(Tail(ts)))
TermsFit(ts) == \A i \in DOMAIN ts : \A v \in Vars : ts[i][1][v] \in 0..D
=============================================================================
