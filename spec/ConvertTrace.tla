---------------------------- MODULE ConvertTrace ----------------------------
(* C07, code -> spec: conversions made by the real convert_to /              *)
(* convert_to_si on SymPy's own unit table are recomputed from the           *)
(* specification.  A record is                                               *)
(*   [id, kind |-> "conv" | "si", qv, qd, uv, ud, out |-> "ok" | "refused",  *)
(*    res |-> <<n, d>>]                                                       *)
(* with qv / uv the exact SI values of the quantity and of the target unit   *)
(* and qd / ud their dimension vectors (projected by the harness from the    *)
(* real objects).  TLC evaluates Convertible / ConvertTo / ToSI of           *)
(* Convert.tla on every record and prints the records that disagree.         *)
EXTENDS Convert, DimJson, IOUtils

Recs == JsonDeserialize(IOEnv.TRACE_FILE)

Q(r)  == U(RatFromSeq(r.qv), DimFromSeq(r.qd))
Un(r) == U(RatFromSeq(r.uv), DimFromSeq(r.ud))

ExpOut(r) == IF r.kind = "si" \/ Convertible(Q(r), Un(r)) THEN "ok" ELSE "refused"
ExpRes(r) == IF r.kind = "si" THEN ToSI(Q(r)) ELSE ConvertTo(Q(r), Un(r))

Agrees(r) == /\ r.out = ExpOut(r)
             /\ r.out = "ok" => RatFromSeq(r.res) = ExpRes(r)

TInit == /\ mode = "trace" /\ start = NoStart /\ cur = NoCur /\ chain = <<>> /\ err = FALSE
         /\ expr = NoExpr /\ temp = NoTemp
TNext == UNCHANGED vars

\* one PrintT per disagreeing record, with what the specification computes
Validate == \A i \in 1..Len(Recs) :
              Agrees(Recs[i]) \/ PrintT(<<"BAD", Recs[i].id, ExpOut(Recs[i]),
                                          IF ExpOut(Recs[i]) = "ok" THEN ExpRes(Recs[i]) ELSE <<0, 1>>>>)
Checked == PrintT(<<"CHECKED", Len(Recs)>>)
=============================================================================
