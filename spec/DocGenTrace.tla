----------------------------- MODULE DocGenTrace -----------------------------
(* C19, code -> spec: validates what the real documentation generator did on  *)
(* the real source tree against spec/DocGen.tla.                              *)
(*                                                                          *)
(* The trace file (JSON, written by harness/c19.py) holds                    *)
(*   mods     per module the ordered events recorded while generate_laws_docs *)
(*            ran: begin(module shape, titled, flag at entry) /              *)
(*            flag(action, value) / stmt(statement index, flag seen by that  *)
(*            statement) / end(page written, flag at exit); the last record  *)
(*            holds finish(final flag, default-mode results)                 *)
(*   tree     the source tree in the vocabulary of the walk layer            *)
(*            (parent, kind per node; node 0 = root; ids descend with the    *)
(*            sorted path so that DocGen!Key orders siblings by name)        *)
(*   produced the node ids for which a page file exists, stray = other files *)
(*   toc      per package page: the listed sub-packages and laws as node ids *)
(*                                                                          *)
(* Every event must be a step the specification allows: the flag protocol    *)
(* (a module starts and ends in the default mode, `disable` switches off,    *)
(* `reset` restores the default), the per-statement expectation Exp of the   *)
(* patch layer evaluated on the module's own shape, one page iff documented, *)
(* and at the end the default mode.  The page set and the toctrees are       *)
(* compared with HasPage / MustList / MayList / LawsOf of the walk layer.    *)
EXTENDS DocGen, IOUtils

Trace == JsonDeserialize(IOEnv.TRACE_FILE)
Mods == Trace.mods                 \* one record per module: [path, ev]; the last one holds the finish event only
TMaxNodes == Len(Trace.tree)

VARIABLES t, l                     \* module index, position in that module's event list

Ev == Mods[t].ev

\* one initial state per module: every module is validated on its own, so every deviating module is reported
TInit == /\ t \in 1..Len(Mods) /\ l = 1
         /\ mod = <<>> /\ phase = "idle" /\ flag = TRUE /\ log = <<>> /\ pc = 1
         /\ tree = Trace.tree /\ rootk = Trace.rootk
         /\ wphase = "off" /\ todo = {} /\ cur = -1 /\ pend = {} /\ written = <<>> /\ toc = <<>> /\ wflag = TRUE

Frozen == UNCHANGED <<t, pc, tree, rootk, wphase, todo, cur, pend, written, toc, wflag>>

IsEvent(e) == l <= Len(Ev) /\ Ev[l].ev = e /\ l' = l + 1

\* a module is entered in the default mode only (the flag observed at entry is recorded)
TBegin == /\ IsEvent("begin") /\ phase = "idle" /\ Ev[l].flag = TRUE
          /\ mod' = Ev[l].shape /\ phase' = "inmod" /\ log' = <<>> /\ flag' = TRUE /\ Frozen

\* `disable` switches evaluation off; `reset` / `enable` give the default mode back
TFlag == /\ IsEvent("flag") /\ phase = "inmod"
         /\ Ev[l].flag = (Ev[l].action # "disable")
         /\ flag' = Ev[l].flag /\ UNCHANGED <<mod, phase, log>> /\ Frozen

Admitted(m, i, f) == LET x == Exp(m, i) IN x = "free" \/ (x = "on" /\ f = TRUE) \/ (x = "off" /\ f = FALSE)

\* a statement of the module runs in the mode the patch layer prescribes for its kind and context
TStmt == /\ IsEvent("stmt") /\ phase = "inmod"
         /\ Ev[l].i \in 1..Len(mod) /\ Ev[l].flag = flag
         /\ Admitted(mod, Ev[l].i, flag)
         /\ (Len(log) > 0 => log[Len(log)][1] < Ev[l].i)
         /\ log' = Append(log, <<Ev[l].i, flag>>) /\ UNCHANGED <<mod, phase, flag>> /\ Frozen

\* a module is left in the default mode; a page iff it is documented; every documented member was executed
TEnd == /\ IsEvent("end") /\ phase = "inmod" /\ flag = TRUE /\ Ev[l].flag = TRUE
        /\ Ev[l].page = Ev[l].titled
        /\ (Ev[l].page => \A i \in 1..LastRequired(mod) : Observable(mod, i) => \E n \in 1..Len(log) : log[n][1] = i)
        /\ phase' = "closed" /\ UNCHANGED <<mod, flag, log>> /\ Frozen

\* after the last module: default mode, and a fixed SymPy computation gives the default-mode results
TFinish == /\ IsEvent("finish") /\ phase = "idle" /\ flag = TRUE
           /\ Ev[l].flag = TRUE /\ Ev[l].sane = TRUE
           /\ phase' = "finished" /\ UNCHANGED <<mod, flag, log>> /\ Frozen

TNext == TBegin \/ TFlag \/ TStmt \/ TEnd \/ TFinish

\* total verdicts: a module's trace is accepted, or the first event no action allows is reported
Complete == l = Len(Ev) + 1 /\ phase \in {"closed", "finished"}
Accepted == Complete => PrintT(<<"ACCEPT", t>>)
Stuck == (l <= Len(Ev) /\ ~ENABLED TNext) => PrintT(<<"STUCK", t, l>>)
Unfinished == (l = Len(Ev) + 1 /\ ~Complete) => PrintT(<<"STUCK", t, l>>)

FlagDefaultBetweenModules == phase \in {"idle", "closed", "finished"} => flag = TRUE

-----------------------------------------------------------------------------
(* page set and toctrees of the real tree against the walk layer (evaluated once, in the initial state) *)

Range(s) == {s[i] : i \in 1..Len(s)}
Produced == Range(Trace.produced)
IsSortedByKey(s) == \A i, j \in 1..Len(s) : i < j => Key(s[i]) < Key(s[j])

TocBad == {i \in 1..Len(Trace.toc) :
             LET te == Trace.toc[i] IN
               ~ /\ IsDirK(Kind(te.d)) /\ HasPage(te.d)
                 /\ te.lw = SortByKey(LawsOf(te.d))
                 /\ MustList(te.d) \subseteq Range(te.pk)
                 /\ Range(te.pk) \subseteq MayList(te.d)
                 /\ IsSortedByKey(te.pk)
                 /\ te.unknown = 0}

TreeReport == (t = 1 /\ l = 1) =>
   PrintT(ToJson([kind |-> "tree",
                  nodes |-> Len(tree),
                  expected |-> Cardinality(ExpectedPages),
                  missing |-> SortByKey(ExpectedPages \ Produced),
                  extra |-> SortByKey(Produced \ ExpectedPages),
                  notoc |-> SortByKey({d \in ExpectedPages : IsDirK(Kind(d)) /\ ~\E i \in 1..Len(Trace.toc) : Trace.toc[i].d = d}),
                  tocbad |-> SortByKey({Trace.toc[i].d : i \in TocBad}),
                  stray |-> Trace.stray]))
=============================================================================
