------------------------------- MODULE VecVal -------------------------------
(* Exact value domain and postfix evaluator shared by VecAlgebra (C14) and   *)
(* VecSolve (C16).                                                            *)
(*                                                                            *)
(* A value is a scalar or a vector of R^3 of the form  x * sqrt(n) / d        *)
(* together with its derivative  dx * sqrt(n) / d  with respect to the        *)
(* scalar parameter t (dual numbers):                                         *)
(*     [k |-> "s" | "v", n |-> squarefree radicand >= 1, d |-> denominator,   *)
(*      x |-> <<ints>>, dx |-> <<ints>>]        (1 entry: scalar, 3: vector)  *)
(* normalised by Mk: gcd(d, all x, all dx) = 1, the zero value has n = d = 1. *)
(* A negative radicand n stands for i * sqrt(|n|) (scalars only).             *)
(* Surds are needed for norms; every operator is closed on this domain or     *)
(* answers Undef (sum of two different radicands, a magnitude that could      *)
(* overflow TLC's 32 bit integers, 1/0, norm of 0 with a non-zero             *)
(* derivative).  Undef propagates; the machines never enable an action whose  *)
(* result is Undef, the trace specs report such records as undecided.         *)
EXTENDS Rat, Sequences, FiniteSets, TLC
LOCAL INSTANCE SequencesExt

Undef == [k |-> "u", n |-> 1, d |-> 1, x |-> <<>>, dx |-> <<>>]

CompBound == 30000    \* |x_i|, |dx_i|, d, n of an operand: sums of two products of operands fit 32 bits
NormBound == 1000000  \* x.x of the argument of a norm
Lim32     == 2000000000

IsU(v) == v.k = "u"
IsV(v) == v.k = "v"
IsS(v) == v.k = "s"

SeqMaxAbs(s) == IF Len(s) = 1 THEN AbsI(s[1])
                ELSE MaxI(AbsI(s[1]), MaxI(AbsI(s[2]), AbsI(s[3])))
MaxAll(v) == MaxI(SeqMaxAbs(v.x), SeqMaxAbs(v.dx))
Fits(v) == ~IsU(v) /\ v.d <= CompBound /\ AbsI(v.n) <= CompBound /\ MaxAll(v) <= CompBound
\* terms * g * a * b cannot overflow
ProdOK(terms, g, a, b) == a = 0 \/ b = 0 \/ a <= (Lim32 \div (terms * g)) \div b

SeqGcd(s) == IF Len(s) = 1 THEN AbsI(s[1])
             ELSE GCD(GCD(AbsI(s[1]), AbsI(s[2])), AbsI(s[3]))
AllZero(s) == \A i \in DOMAIN s : s[i] = 0
IsZero(v) == ~IsU(v) /\ AllZero(v.x) /\ AllZero(v.dx)
Zeros(len) == [i \in 1..len |-> 0]

\* the normalising constructor (d > 0)
Mk(k, n, d, x, dx) ==
  IF AllZero(x) /\ AllZero(dx)
  THEN [k |-> k, n |-> 1, d |-> 1, x |-> Zeros(Len(x)), dx |-> Zeros(Len(x))]
  ELSE LET g == GCD(d, GCD(SeqGcd(x), SeqGcd(dx)))
       IN  [k |-> k, n |-> n, d |-> d \div g,
            x |-> [i \in DOMAIN x |-> x[i] \div g], dx |-> [i \in DOMAIN dx |-> dx[i] \div g]]

IntS(c)      == Mk("s", 1, 1, <<c>>, <<0>>)
ScalD(c, dc) == Mk("s", 1, 1, <<c>>, <<dc>>)
VecD(p, dp)  == Mk("v", 1, 1, p, dp)

\* the value without its derivative / the derivative as a value (for comparisons)
ValOf(v)  == IF IsU(v) THEN Undef ELSE Mk(v.k, v.n, v.d, v.x, Zeros(Len(v.x)))
DualOf(v) == IF IsU(v) THEN Undef ELSE Mk(v.k, v.n, v.d, v.dx, Zeros(Len(v.x)))

\* sqrt(n1) * sqrt(n2) = RadG * sqrt(RadN) for squarefree n1, n2.  A negative radicand stands for the principal
\* root i sqrt(|n|) (scalar equations evaluated at negative values): sqrt(-a) sqrt(-b) = -sqrt(a b)
RadG(n1, n2) == GCD(AbsI(n1), AbsI(n2)) * (IF n1 < 0 /\ n2 < 0 THEN -1 ELSE 1)
RadN(n1, n2) == LET g == GCD(AbsI(n1), AbsI(n2)) IN
                (AbsI(n1) \div g) * (AbsI(n2) \div g) * (IF (n1 < 0) # (n2 < 0) THEN -1 ELSE 1)

\* s = SqM(s)^2 * SqR(s), SqR squarefree, for 0 < s <= NormBound
SqM(s) == LET lim == IF s <= 10000 THEN 100 ELSE 1000
              c == {q \in 1..lim : s % (q * q) = 0}
          IN  CHOOSE q \in c : \A r \in c : r <= q
SqR(s) == s \div (SqM(s) * SqM(s))

-----------------------------------------------------------------------------
Neg(v) == IF IsU(v) THEN Undef
          ELSE [v EXCEPT !.x = [i \in DOMAIN v.x |-> -v.x[i]], !.dx = [i \in DOMAIN v.dx |-> -v.dx[i]]]

\* sum of two values of the same kind
Add(u, v) ==
  IF ~Fits(u) \/ ~Fits(v) \/ u.k # v.k THEN Undef
  ELSE IF IsZero(u) THEN v
  ELSE IF IsZero(v) THEN u
  ELSE IF u.n # v.n THEN Undef
  ELSE Mk(u.k, u.n, u.d * v.d,
          [i \in DOMAIN u.x |-> u.x[i] * v.d + v.x[i] * u.d],
          [i \in DOMAIN u.x |-> u.dx[i] * v.d + v.dx[i] * u.d])

\* scalar s times scalar or vector v (product rule for the derivative)
Mul(s, v) ==
  IF ~Fits(s) \/ ~Fits(v) \/ ~IsS(s) THEN Undef
  ELSE LET g == RadG(s.n, v.n) IN
       IF ~ProdOK(2, AbsI(g), MaxAll(s), MaxAll(v)) THEN Undef ELSE
       Mk(v.k, RadN(s.n, v.n), s.d * v.d,
          [i \in DOMAIN v.x |-> g * (s.x[1] * v.x[i])],
          [i \in DOMAIN v.x |-> g * (s.dx[1] * v.x[i] + s.x[1] * v.dx[i])])

Dot(u, v) ==
  IF ~Fits(u) \/ ~Fits(v) \/ ~IsV(u) \/ ~IsV(v) THEN Undef
  ELSE LET g == RadG(u.n, v.n) IN
       IF ~ProdOK(6, AbsI(g), MaxAll(u), MaxAll(v)) THEN Undef ELSE
       Mk("s", RadN(u.n, v.n), u.d * v.d,
          <<g * (u.x[1] * v.x[1] + u.x[2] * v.x[2] + u.x[3] * v.x[3])>>,
          <<g * (u.dx[1] * v.x[1] + u.dx[2] * v.x[2] + u.dx[3] * v.x[3]
                 + u.x[1] * v.dx[1] + u.x[2] * v.dx[2] + u.x[3] * v.dx[3])>>)

C3(p, q, i) == LET j == (i % 3) + 1  m == ((i + 1) % 3) + 1 IN p[j] * q[m] - p[m] * q[j]
Cross(u, v) ==
  IF ~Fits(u) \/ ~Fits(v) \/ ~IsV(u) \/ ~IsV(v) THEN Undef
  ELSE LET g == RadG(u.n, v.n) IN
       IF ~ProdOK(4, AbsI(g), MaxAll(u), MaxAll(v)) THEN Undef ELSE
       Mk("v", RadN(u.n, v.n), u.d * v.d,
          [i \in 1..3 |-> g * C3(u.x, v.x, i)],
          [i \in 1..3 |-> g * (C3(u.dx, v.x, i) + C3(u.x, v.dx, i))])

\* scalar triple product a . (b x c)
Mixed(a, b, c) == Dot(a, Cross(b, c))

\* |v| = sqrt(n) sqrt(x.x) / d ;  d|v| = (v . dv) / |v|
NormV(v) ==
  IF ~Fits(v) \/ ~IsV(v) \/ v.n < 0 \/ SeqMaxAbs(v.x) > 1000 THEN Undef
  ELSE LET s  == v.x[1] * v.x[1] + v.x[2] * v.x[2] + v.x[3] * v.x[3]
           ds == v.x[1] * v.dx[1] + v.x[2] * v.dx[2] + v.x[3] * v.dx[3]
       IN IF s = 0 THEN (IF AllZero(v.dx) THEN IntS(0) ELSE Undef)
          ELSE IF s > NormBound THEN Undef
          ELSE LET m == SqM(s)  r == SqR(s)  g == RadG(v.n, r) IN
               IF ~ProdOK(1, g, s, 1) \/ ~ProdOK(1, g, AbsI(ds), 1) \/ ~ProdOK(1, v.d, m * r, 1) THEN Undef
               ELSE Mk("s", RadN(v.n, r), v.d * m * r, <<g * s>>, <<g * ds>>)

\* 1 / s ;  d(1/s) = -ds / s^2
Inv(s) ==
  IF ~Fits(s) \/ ~IsS(s) THEN Undef
  ELSE IF s.x[1] = 0 \/ ~ProdOK(1, AbsI(s.n), AbsI(s.x[1]), AbsI(s.x[1])) THEN Undef
  ELSE LET sg == IF s.n < 0 THEN -1 ELSE 1 IN      \* sqrt(n) sqrt(n) = n also for n < 0; keep the denominator positive
       Mk("s", s.n, s.x[1] * s.x[1] * AbsI(s.n), <<sg * s.d * s.x[1]>>, <<-(sg * s.dx[1] * s.d)>>)

RECURSIVE PowNat(_, _)
PowNat(s, e) == IF e = 0 THEN IntS(1) ELSE IF e = 1 THEN s ELSE Mul(s, PowNat(s, e - 1))
Pow(s, e) ==
  IF IsU(s) \/ ~IsS(s) \/ AbsI(e) > 16 THEN Undef
  ELSE IF e >= 0 THEN PowNat(s, e) ELSE PowNat(Inv(s), -e)

AbsS(s) ==
  IF IsU(s) \/ ~IsS(s) \/ s.n < 0 THEN Undef
  ELSE IF s.x[1] > 0 THEN s
  ELSE IF s.x[1] < 0 THEN Neg(s)
  ELSE IF s.dx[1] = 0 THEN s ELSE Undef

\* square root of a non-negative rational x/d = sqrt(x d)/d ;  d sqrt(s) = ds / (2 sqrt(s))
SqrtS(s) ==
  IF ~Fits(s) \/ ~IsS(s) \/ s.n # 1 THEN Undef
  ELSE IF s.x[1] = 0 THEN (IF s.dx[1] = 0 THEN s ELSE Undef)
  ELSE LET q == AbsI(s.x[1]) * s.d  sg == IF s.x[1] < 0 THEN -1 ELSE 1 IN      \* sqrt(-q) = i sqrt(q): radicand -r
       IF q > NormBound THEN Undef
       ELSE LET m == SqM(q)  r == SqR(q) IN
            IF ~ProdOK(2, 1, m * r, s.d) THEN Undef
            ELSE Mk("s", sg * r, 2 * s.d * m * r, <<2 * m * m * r>>, <<sg * s.dx[1] * s.d>>)

SignS(s) ==
  IF IsU(s) \/ ~IsS(s) \/ s.n < 0 \/ s.x[1] = 0 THEN Undef
  ELSE IntS(IF s.x[1] > 0 THEN 1 ELSE -1)

\* values are equal / opposite
Same(u, v) == ~IsU(u) /\ ~IsU(v) /\ u = v

-----------------------------------------------------------------------------
(* Assignments and the postfix evaluator.                                    *)
(* An assignment is a tuple <<vec, dvec, scal, dscal>>: value and            *)
(* t-derivative of every vector leaf (integer triples) and scalar leaf.      *)
(* A token is a pair <<op, k>>.                                              *)

LeafVec(A, i)  == VecD(A[1][i], A[2][i])
LeafDVec(A, i) == VecD(A[2][i], <<0, 0, 0>>)     \* the leaf "derivative of vector leaf i" as a plain value
LeafScal(A, j) == ScalD(A[3][j], A[4][j])

Arity(op) == CASE op \in {"vec", "dvec", "scal", "int"} -> 0
               [] op \in {"neg", "norm", "pow", "abs", "sign", "sqrt"} -> 1
               [] op = "mixed" -> 3
               [] OTHER -> 2

OpNames == {"vec", "dvec", "scal", "int", "neg", "norm", "pow", "abs", "sign", "sqrt", "mixed",
            "addv", "adds", "scalev", "muls", "dot", "cross"}

\* result of one node applied to the top of the stack st (Undef when ill-typed or outside the domain)
NodeVal(A, st, tok) ==
  LET op == tok[1]
      k  == tok[2]
      n  == Len(st)
      T(i) == st[n - i]          \* T(0) is the top
  IN
  IF op \notin OpNames \/ n < Arity(op) THEN Undef
  ELSE CASE op = "vec"    -> LeafVec(A, k)
         [] op = "dvec"   -> LeafDVec(A, k)
         [] op = "scal"   -> LeafScal(A, k)
         [] op = "int"    -> IntS(k)
         [] op = "neg"    -> Neg(T(0))
         [] op = "norm"   -> NormV(T(0))
         [] op = "pow"    -> Pow(T(0), k)
         [] op = "abs"    -> AbsS(T(0))
         [] op = "sign"   -> SignS(T(0))
         [] op = "sqrt"   -> SqrtS(T(0))
         [] op = "addv"   -> IF IsV(T(1)) /\ IsV(T(0)) THEN Add(T(1), T(0)) ELSE Undef
         [] op = "adds"   -> IF IsS(T(1)) /\ IsS(T(0)) THEN Add(T(1), T(0)) ELSE Undef
         [] op = "scalev" -> IF IsS(T(1)) /\ IsV(T(0)) THEN Mul(T(1), T(0)) ELSE Undef
         [] op = "muls"   -> IF IsS(T(1)) /\ IsS(T(0)) THEN Mul(T(1), T(0)) ELSE Undef
         [] op = "dot"    -> Dot(T(1), T(0))
         [] op = "cross"  -> Cross(T(1), T(0))
         [] op = "mixed"  -> Mixed(T(2), T(1), T(0))

Bad == <<Undef>>
Step(A, st, tok) ==
  IF st = Bad THEN Bad
  ELSE LET v == NodeVal(A, st, tok) IN
       IF IsU(v) THEN Bad
       ELSE Append(SubSeq(st, 1, Len(st) - Arity(tok[1])), v)

\* the value of a complete program under assignment A (Undef if undecided / ill-formed); FoldLeft of the
\* community module SequencesExt is evaluated iteratively, so long returned expressions do not exhaust the stack
RunOn(A, st0, p) == FoldLeft(LAMBDA acc, tok : Step(A, acc, tok), st0, p)
Eval(A, p) == LET st == RunOn(A, <<>>, p)
              IN  IF Len(st) = 1 THEN st[1] ELSE Undef
=============================================================================
