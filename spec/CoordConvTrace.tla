--------------------------- MODULE CoordConvTrace ---------------------------
(* C15, code -> spec.  For every test point harness/c15.py records, from the *)
(* REAL tables evaluated at the point (all values rational there):           *)
(*   T[A][B]  the base-vector conversion matrix of express_base_vectors(A,B) *)
(*            (column convention: B-components = T[A][B] . A-components),     *)
(*   J[A]     the Jacobian d(x,y,z)/d(q1,q2,q3) obtained by differentiating   *)
(*            express_base_scalars(cartesian, A),                             *)
(*   h[A]     the system's lame_coefficients.                                 *)
(* TLC decides, in exact rational arithmetic, for all pairs and triples of    *)
(* systems:  T T^t = I and det T = 1 (orthonormal rotation), T[A][B] T[B][A]  *)
(* = I (the reverse conversion is the inverse), T[A][C] = T[B][C] T[A][B]     *)
(* (direct = via the third system), column i of J[A] = h_i * column i of      *)
(* T[A][cart] and h_i^2 = sum_j J_ji^2 (scale factors are the lengths of the  *)
(* position derivatives; ties scalar tables, vector tables and Lame           *)
(* coefficients together).  Failing records are printed.                      *)
EXTENDS CoordConv, IOUtils

Recs == JsonDeserialize(IOEnv.TRACE_FILE)

VARIABLE l

SysSeq  == <<"cart", "cyl", "sph">>
PairSeq == << <<"cart", "cart">>, <<"cart", "cyl">>, <<"cart", "sph">>, <<"cyl", "cart">>, <<"cyl", "cyl">>,
              <<"cyl", "sph">>, <<"sph", "cart">>, <<"sph", "cyl">>, <<"sph", "sph">> >>
TripleSeq == LET RECURSIVE Build(_)
                 Build(n) == IF n = 0 THEN <<>>
                             ELSE Build(n - 1) \o <<<<SysSeq[((n - 1) \div 9) + 1], SysSeq[(((n - 1) \div 3) % 3) + 1], SysSeq[((n - 1) % 3) + 1]>>>>
             IN Build(27)
AxisSeq == << <<"cart", 1>>, <<"cart", 2>>, <<"cart", 3>>, <<"cyl", 1>>, <<"cyl", 2>>, <<"cyl", 3>>,
              <<"sph", 1>>, <<"sph", 2>>, <<"sph", 3>> >>

Range(f) == {f[i] : i \in DOMAIN f}

Checkable(r) == /\ \A p \in Range(PairSeq) : MatrixOK(r.T[p[1]][p[2]])
                /\ \A s \in Systems : MatrixOK(r.J[s]) /\ \A i \in 1..3 : EntryOK(r.h[s][i])

Bad(r) ==
  [rotation  |-> SelectSeq(PairSeq, LAMBDA p : ~IsRotation(r.T[p[1]][p[2]])),
   inverse   |-> SelectSeq(PairSeq, LAMBDA p : ~IsInverse(r.T[p[1]][p[2]], r.T[p[2]][p[1]])),
   identity  |-> SelectSeq(SysSeq, LAMBDA s : r.T[s][s] # I3),
   via_third |-> SelectSeq(TripleSeq, LAMBDA t : r.T[t[1]][t[3]] # MMul(r.T[t[2]][t[3]], r.T[t[1]][t[2]])),
   jacobian  |-> SelectSeq(AxisSeq, LAMBDA x : Col(r.J[x[1]], x[2]) # VScaleR(r.h[x[1]][x[2]], Col(r.T[x[1]]["cart"], x[2]))),
   lame      |-> SelectSeq(AxisSeq, LAMBDA x : ~(/\ r.h[x[1]][x[2]][1] > 0
                                                  /\ RMul(r.h[x[1]][x[2]], r.h[x[1]][x[2]]) = NormSq(Col(r.J[x[1]], x[2]))))]

AllGood == [rotation |-> <<>>, inverse |-> <<>>, identity |-> <<>>, via_third |-> <<>>, jacobian |-> <<>>, lame |-> <<>>]

TInit == /\ l = 0 /\ pos = <<1, 1, 1>> /\ vec = <<0, 0, 0>> /\ psys = "cart" /\ vsys = "cart" /\ path = <<>>
         /\ start = [pos |-> pos, vec |-> vec, psys |-> psys, vsys |-> vsys]
TNext == /\ l < Len(Recs) /\ l' = l + 1
         /\ pos' = Recs[l + 1].p /\ UNCHANGED <<vec, psys, vsys, path, start>>

Checked == l > 0 =>
             LET r == Recs[l] IN
               IF ~Checkable(r) THEN PrintT(ToJson([uncheckable |-> r.id]))
               ELSE LET bad == Bad(r) IN bad = AllGood \/ PrintT(ToJson([fail |-> r.id, bad |-> bad]))
AllConsumed == TLCGet("stats").diameter = Len(Recs) + 1          \* POSTCONDITION
=============================================================================
