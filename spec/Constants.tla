------------------------------ MODULE Constants ------------------------------
(* C20: physical constants carry reference values and dimensions.            *)
(*                                                                          *)
(* The reference table as TLA+ data: for every constant exported by          *)
(* symplyphysics.quantities (and the two public ones it defines without      *)
(* exporting) the dimension exponent vector, the SI value as a nine-digit    *)
(* mantissa with decimal exponent (BigMant), and the number k of significant *)
(* digits to which the reference is known / agreed.  Sources: CODATA 2018    *)
(* and 2022 recommended values (where the two adjustments differ, k stops    *)
(* before the first differing digit), the exact SI defining constants, IAU   *)
(* 2015 resolutions B2 (zero-point luminosity) and B3 (nominal solar /       *)
(* terrestrial values divided by G).  The numbers were entered from those    *)
(* publications, not from the library.                                       *)
(*                                                                          *)
(* The seven identities of the statement are operators over an arbitrary     *)
(* table T (name -> BigMant number): TLC evaluates them on the reference     *)
(* table itself (this module: the oracle is self-consistent) and on the      *)
(* values recorded from the library (ConstantsTrace.tla).                    *)
EXTENDS BigMant, Dims, Sequences, FiniteSets, TLC, Json

\* dimension from the seven SI exponents (length, mass, time, current, temperature, amount, luminous intensity)
Dim(l, m, t, i, k, n, j) ==
  [b \in Base |-> CASE b = "L" -> R(l) [] b = "M" -> R(m) [] b = "T" -> R(t) [] b = "I" -> R(i)
                    [] b = "K" -> R(k) [] b = "N" -> R(n) [] b = "J" -> R(j) [] OTHER -> RZero]

Row(d, m, e, k) == [d |-> d, m |-> m, e |-> e, k |-> k]

Energy == Dim(2, 1, -2, 0, 0, 0, 0)
Action == Dim(2, 1, -1, 0, 0, 0, 0)
Power  == Dim(2, 1, -3, 0, 0, 0, 0)

Ref == [
  \* exported (__all__)
  standard_conditions_temperature |-> Row(Dim(0, 0, 0, 0, 1, 0, 0), 273150000, 2, 9),      \* 0 degrees Celsius, exact
  standard_laboratory_temperature |-> Row(Dim(0, 0, 0, 0, 1, 0, 0), 298150000, 2, 9),      \* 25 degrees Celsius
  electron_rest_mass            |-> Row(Dim(0, 1, 0, 0, 0, 0, 0), 910938370, -31, 8),      \* 9.1093837015(28)e-31 / ...139(28)
  bohr_radius                   |-> Row(Dim(1, 0, 0, 0, 0, 0, 0), 529177211, -11, 9),      \* 5.29177210903(80)e-11 / ...544(82)
  hydrogen_ionization_energy    |-> Row(Energy,                   217987236, -18, 4),      \* Rydberg energy 13.605693 eV; 13.598 eV with the reduced mass
  solar_mass                    |-> Row(Dim(0, 1, 0, 0, 0, 0, 0), 198841000, 30, 4),       \* IAU GM_sun 1.3271244e20 / G
  earth_mass                    |-> Row(Dim(0, 1, 0, 0, 0, 0, 0), 597216800, 24, 4),       \* IAU GM_earth 3.986004e14 / G
  boltzmann_constant            |-> Row(Dim(2, 1, -2, 0, -1, 0, 0), 138064900, -23, 9),    \* exact
  molar_gas_constant            |-> Row(Dim(2, 1, -2, 0, -1, -1, 0), 831446262, 0, 9),     \* 8.31446261815324 exact
  speed_of_light                |-> Row(Dim(1, 0, -1, 0, 0, 0, 0), 299792458, 8, 9),       \* exact
  vacuum_permittivity           |-> Row(Dim(-3, -1, 4, 2, 0, 0, 0), 885418781, -12, 8),    \* 8.8541878128(13)e-12 / ...188(14)
  vacuum_permeability           |-> Row(Dim(1, 1, -2, -2, 0, 0, 0), 125663706, -6, 8),     \* 1.25663706212(19)e-6 / ...127(20)
  elementary_charge             |-> Row(Dim(0, 0, 1, 1, 0, 0, 0), 160217663, -19, 9),      \* 1.602176634e-19 exact
  hbar                          |-> Row(Action,                   105457182, -34, 9),      \* 1.054571817646e-34
  planck                        |-> Row(Action,                   662607015, -34, 9),      \* exact
  avogadro_constant             |-> Row(Dim(0, 0, 0, 0, 0, -1, 0), 602214076, 23, 9),      \* exact
  acceleration_due_to_gravity   |-> Row(Dim(1, 0, -2, 0, 0, 0, 0), 980665000, 0, 9),       \* standard gravity, exact
  stefan_boltzmann_constant     |-> Row(Dim(0, 1, -3, 0, -4, 0, 0), 567037442, -8, 9),     \* 5.670374419184e-8
  richardson_constant           |-> Row(Dim(-2, 0, 0, 1, -2, 0, 0), 120173229, 6, 6),      \* 4 pi m_e k_B^2 e / h^3
  rydberg_frequency             |-> Row(Dim(0, 0, -1, 0, 0, 0, 0), 328984196, 15, 9),      \* 3.2898419602508(64)e15 / ...500(36)
  wien_displacement_constant    |-> Row(Dim(1, 0, 0, 0, 1, 0, 0), 289777196, -3, 7),       \* 2.897771955e-3; the statement fixes the factor to 7 digits
  hubble_constant               |-> Row(Dim(0, 0, -1, 0, 0, 0, 0), 226854000, -18, 1),     \* 70 km/s/Mpc; measurements range 67..74
  zero_point_luminosity         |-> Row(Power,                    301280000, 28, 9),       \* IAU 2015 B2, exact
  faraday_constant              |-> Row(Dim(0, 0, 1, 1, 0, -1, 0), 964853321, 4, 9),       \* 96485.33212331 exact
  vacuum_impedance              |-> Row(Dim(2, 1, -3, -2, 0, 0, 0), 376730314, 2, 8),      \* 376.730313668(57) / ...412(59)
  \* public, defined by the module, not in __all__
  gravitational_constant        |-> Row(Dim(3, -1, -2, 0, 0, 0, 0), 667430000, -11, 5),    \* 6.67430(15)e-11
  sun_luminosity                |-> Row(Power,                    382800000, 26, 3),       \* IAU nominal 3.828e26
  \* not (yet) exported by the library: further CODATA / SI / IAU constants, so that a constant added to the
  \* catalogue under its usual name is decided.  An exported constant WITHOUT a row here cannot be certified and is
  \* reported (harness/c20.py: "exported constant without a reference value").
  proton_rest_mass              |-> Row(Dim(0, 1, 0, 0, 0, 0, 0), 167262192, -27, 8),      \* 1.67262192369(51)e-27 / ...595(52)
  proton_mass                   |-> Row(Dim(0, 1, 0, 0, 0, 0, 0), 167262192, -27, 8),
  neutron_rest_mass             |-> Row(Dim(0, 1, 0, 0, 0, 0, 0), 167492750, -27, 8),      \* 1.67492749804(95)e-27 / ...750056(85)
  neutron_mass                  |-> Row(Dim(0, 1, 0, 0, 0, 0, 0), 167492750, -27, 8),
  electron_mass                 |-> Row(Dim(0, 1, 0, 0, 0, 0, 0), 910938370, -31, 8),
  atomic_mass_constant          |-> Row(Dim(0, 1, 0, 0, 0, 0, 0), 166053907, -27, 8),      \* 1.66053906660(50)e-27 / ...892(52)
  atomic_mass_unit              |-> Row(Dim(0, 1, 0, 0, 0, 0, 0), 166053907, -27, 8),
  fine_structure_constant       |-> Row(Dim(0, 0, 0, 0, 0, 0, 0), 729735257, -3, 8),       \* 7.2973525693(11)e-3 / ...643(11)
  rydberg_constant              |-> Row(Dim(-1, 0, 0, 0, 0, 0, 0), 109737316, 7, 9),       \* 10973731.568160(21) m^-1
  bohr_magneton                 |-> Row(Dim(2, 0, 0, 1, 0, 0, 0), 927401008, -24, 8),      \* 9.2740100783(28)e-24 J/T / ...657(29)
  nuclear_magneton              |-> Row(Dim(2, 0, 0, 1, 0, 0, 0), 505078375, -27, 8),      \* 5.0507837461(15)e-27 / ...393(16)
  classical_electron_radius     |-> Row(Dim(1, 0, 0, 0, 0, 0, 0), 281794033, -15, 8),      \* 2.8179403262(13)e-15 / ...205(13)
  compton_wavelength            |-> Row(Dim(1, 0, 0, 0, 0, 0, 0), 242631024, -12, 8),      \* 2.42631023867(73)e-12 / ...538(76)
  josephson_constant            |-> Row(Dim(-2, -1, 2, 1, 0, 0, 0), 483597848, 14, 9),     \* 2e/h = 483597.8484...e9 Hz/V exact
  von_klitzing_constant         |-> Row(Dim(2, 1, -3, -2, 0, 0, 0), 258128075, 4, 9),      \* h/e^2 = 25812.80745... ohm exact
  magnetic_flux_quantum         |-> Row(Dim(2, 1, -2, -1, 0, 0, 0), 206783385, -15, 9),    \* h/2e = 2.067833848...e-15 Wb exact
  conductance_quantum           |-> Row(Dim(-2, -1, 3, 2, 0, 0, 0), 774809173, -5, 9),     \* 2e^2/h = 7.748091729...e-5 S exact
  electronvolt                  |-> Row(Energy,                   160217663, -19, 9),      \* exact
  electron_volt                 |-> Row(Energy,                   160217663, -19, 9),
  astronomical_unit             |-> Row(Dim(1, 0, 0, 0, 0, 0, 0), 149597871, 11, 9),       \* 149597870700 m exact (IAU 2012)
  parsec                        |-> Row(Dim(1, 0, 0, 0, 0, 0, 0), 308567758, 16, 9),       \* 648000/pi au
  light_year                    |-> Row(Dim(1, 0, 0, 0, 0, 0, 0), 946073047, 15, 9),       \* 9460730472580800 m exact
  standard_atmosphere           |-> Row(Dim(-1, 1, -2, 0, 0, 0, 0), 101325000, 5, 9),      \* exact
  solar_radius                  |-> Row(Dim(1, 0, 0, 0, 0, 0, 0), 695700000, 8, 4),        \* IAU nominal 6.957e8
  sun_radius                    |-> Row(Dim(1, 0, 0, 0, 0, 0, 0), 695700000, 8, 4)
]

Names == DOMAIN Ref
Num(r) == [m |-> r.m, e |-> r.e]
RefNum == [n \in Names |-> Num(Ref[n])]
RefK == [n \in Names |-> Ref[n].k]

-----------------------------------------------------------------------------
(* The identities of the statement, in product form (no division needed).    *)

Wien == [m |-> 496511423, e |-> 0]          \* x = 4.965114231..., root of x = 5 (1 - exp(-x))

Mul3(a, b, c) == BMul(BMul(a, b), c)

IdNames == {"R", "F", "hbar", "eps_mu", "Z0", "sigma", "wien",
            "mp_me", "mn_gt_mp"}           \* cross relations among the particle masses (evaluated when exported)

ProtonElectronRatio == [m |-> 183615267, e |-> 3]      \* m_p / m_e = 1836.15267343(11)
BLess(x, y) == x.e < y.e \/ (x.e = y.e /\ x.m < y.m)

Involved(id) ==
  CASE id = "R"      -> {"molar_gas_constant", "boltzmann_constant", "avogadro_constant"}
    [] id = "F"      -> {"faraday_constant", "elementary_charge", "avogadro_constant"}
    [] id = "hbar"   -> {"hbar", "planck"}
    [] id = "eps_mu" -> {"vacuum_permittivity", "vacuum_permeability", "speed_of_light"}
    [] id = "Z0"     -> {"vacuum_impedance", "vacuum_permeability", "speed_of_light"}
    [] id = "sigma"  -> {"stefan_boltzmann_constant", "boltzmann_constant", "planck", "speed_of_light"}
    [] id = "wien"   -> {"wien_displacement_constant", "planck", "speed_of_light", "boltzmann_constant"}
    [] id = "mp_me"  -> {"proton_rest_mass", "electron_rest_mass"}
    [] id = "mn_gt_mp" -> {"neutron_rest_mass", "proton_rest_mass"}

\* both sides of identity id over table T
Lhs(id, T) ==
  CASE id = "R"      -> T["molar_gas_constant"]                                            \* R = k_B N_A
    [] id = "F"      -> T["faraday_constant"]                                              \* F = e N_A
    [] id = "hbar"   -> Mul3(T["hbar"], BInt(2), BPi)                                      \* hbar 2 pi = h
    [] id = "eps_mu" -> Mul3(T["vacuum_permittivity"], T["vacuum_permeability"], BPow(T["speed_of_light"], 2))
    [] id = "Z0"     -> T["vacuum_impedance"]                                              \* Z0 = mu0 c
    [] id = "sigma"  -> BMul(Mul3(T["stefan_boltzmann_constant"], BInt(15), BPow(T["planck"], 3)),
                             BPow(T["speed_of_light"], 2))                                 \* sigma 15 h^3 c^2 = 2 pi^5 k_B^4
    [] id = "wien"   -> Mul3(T["wien_displacement_constant"], Wien, T["boltzmann_constant"])   \* b x k_B = h c
    [] id = "mp_me"  -> T["proton_rest_mass"]                                              \* m_p = 1836.15267 m_e
    [] id = "mn_gt_mp" -> T["proton_rest_mass"]                                            \* m_p < m_n
Rhs(id, T) ==
  CASE id = "R"      -> BMul(T["boltzmann_constant"], T["avogadro_constant"])
    [] id = "F"      -> BMul(T["elementary_charge"], T["avogadro_constant"])
    [] id = "hbar"   -> T["planck"]
    [] id = "eps_mu" -> BOne
    [] id = "Z0"     -> BMul(T["vacuum_permeability"], T["speed_of_light"])
    [] id = "sigma"  -> Mul3(BInt(2), BPow(BPi, 5), BPow(T["boltzmann_constant"], 4))
    [] id = "wien"   -> BMul(T["planck"], T["speed_of_light"])
    [] id = "mp_me"  -> BMul(T["electron_rest_mass"], ProtonElectronRatio)
    [] id = "mn_gt_mp" -> T["neutron_rest_mass"]

MinOver(S, K) == CHOOSE k \in {K[n] : n \in S} : \A n \in S : k <= K[n]
MinI2(a, b) == IF a <= b THEN a ELSE b

\* an identity is compared to the coarsest precision involved, and to at most 7 digits: a chain of up to ten
\* nine-digit products accumulates rounding errors of a few units of the 8th digit
IdPrecision(id, K) == MinI2(7, MinOver(Involved(id), K))
IdHolds(id, T, K) == IF id = "mn_gt_mp" THEN BLess(Lhs(id, T), Rhs(id, T))        \* an order relation, not an equation
                     ELSE BClose(Lhs(id, T), Rhs(id, T), IdPrecision(id, K))

-----------------------------------------------------------------------------
(* The relations among constants that are exact by definition (R, F, hbar:   *)
(* products of exact SI constants) or tied by theory (eps0 mu0 c^2 = 1,      *)
(* Z0 = mu0 c) hold far below the ninth digit.  They are evaluated on the    *)
(* library's values with twelve-digit arithmetic (BigMant!HMul) and must     *)
(* hold within q * 10^-10 relative:                                          *)
(*   q = 1 for R, F, hbar (exact constants; the tolerance only absorbs the   *)
(*         truncation of the twelve-digit products);                         *)
(*   q = 3 for eps_mu and Z0: mu0, eps0 and Z0 are measured quantities since *)
(*         2019, each known to 1.5 * 10^-10 relative (CODATA 2018 and 2022), *)
(*         so two of them tied by an exact factor may disagree by at most    *)
(*         the sum of their uncertainties.  (The pinned library: 0 and       *)
(*         1.3 * 10^-10.)                                                    *)
HIdNames == {"R", "F", "hbar", "eps_mu", "Z0"}
HTolQ(id) == IF id \in {"eps_mu", "Z0"} THEN 3 ELSE 1
HMul3(a, b, c) == HMul(HMul(a, b), c)
HLhs(id, T) ==
  CASE id = "R"      -> T["molar_gas_constant"]
    [] id = "F"      -> T["faraday_constant"]
    [] id = "hbar"   -> HMul3(T["hbar"], HTwo, HPi)
    [] id = "eps_mu" -> HMul3(T["vacuum_permittivity"], T["vacuum_permeability"], HMul(T["speed_of_light"], T["speed_of_light"]))
    [] id = "Z0"     -> T["vacuum_impedance"]
HRhs(id, T) ==
  CASE id = "R"      -> HMul(T["boltzmann_constant"], T["avogadro_constant"])
    [] id = "F"      -> HMul(T["elementary_charge"], T["avogadro_constant"])
    [] id = "hbar"   -> T["planck"]
    [] id = "eps_mu" -> HOne
    [] id = "Z0"     -> HMul(T["vacuum_permeability"], T["speed_of_light"])
HIdHolds(id, T) == HClose(HLhs(id, T), HRhs(id, T), HTolQ(id))

-----------------------------------------------------------------------------
(* Model checking of the reference table itself: a trivial machine that      *)
(* steps through the rows and then through the identities.                   *)

VARIABLE step
RECURSIVE SeqOf(_)
SeqOf(S) == IF S = {} THEN <<>> ELSE LET x == CHOOSE y \in S : TRUE IN <<x>> \o SeqOf(S \ {x})   \* any fixed order
RowSeq == SeqOf(Names)
IdSeq == SeqOf(IdNames)
HIdSeq == SeqOf(HIdNames)
NSteps == Len(RowSeq) + Len(IdSeq)

Init == step = 1
Next == step < NSteps /\ step' = step + 1

RowWellFormed(r) == /\ r.m >= E8 /\ r.m < E9 /\ r.e \in -40..40 /\ r.k \in 1..9
                    /\ \A b \in Base : IsRat(r.d[b])
                    /\ r.d["A"] = RZero
TableWellFormed == step <= Len(RowSeq) => RowWellFormed(Ref[RowSeq[step]])
IdentitiesHoldOnReference ==
  step > Len(RowSeq) => IdHolds(IdSeq[step - Len(RowSeq)], RefNum, RefK)
BigMantSane == step = 1 => MulExactOn3Digits /\ HMulSane
TableSize == Cardinality(Names) = 52 /\ \A id \in IdNames : Involved(id) \subseteq Names
ASSUME TableSize

\* the margins, for the evidence: distance of both sides in units of the ninth digit
IdReport == step > Len(RowSeq) =>
   LET id == IdSeq[step - Len(RowSeq)] IN
     PrintT(ToJson([id |-> id, dist |-> BDist(Lhs(id, RefNum), Rhs(id, RefNum)),
                    digits |-> IdPrecision(id, RefK), lhs |-> Lhs(id, RefNum), rhs |-> Rhs(id, RefNum)]))

\* cross-check of the limb arithmetic against exact integers (done by the harness): all products of two reference mantissas
MulProbe == step <= Len(RowSeq) =>
   PrintT(ToJson([x |-> Ref[RowSeq[step]].m,
                  p |-> [j \in 1..Len(RowSeq) |-> BMul([m |-> Ref[RowSeq[step]].m, e |-> 0], [m |-> Ref[RowSeq[j]].m, e |-> 0])]
                 ]))
ProbeOrder == step = 1 => PrintT(ToJson([order |-> [j \in 1..Len(RowSeq) |-> Ref[RowSeq[j]].m]]))
=============================================================================
